"""Tier F: frame / ownership / data-flow obligations decided on the AST of the real function (conservative).

A pass is a proof of the clause modulo the mutator table and the freshness rules listed here (both trusted and
reported); a failure is only a *candidate*: it is not property-level and is believed only if the bounded harness of the
property fails natively as well.
"""

from __future__ import annotations

import ast
import time

from . import extract

# methods that mutate their receiver, per declared type
MUTATORS = {
    "ase.Atoms": {"set_cell", "wrap", "translate", "center", "rotate", "set_positions", "set_scaled_positions", "rattle",
                  "set_pbc", "set_atomic_numbers", "set_chemical_symbols", "extend", "append", "pop", "euler_rotate",
                  "rotate_dihedral", "set_array", "new_array", "set_tags", "set_masses", "set_initial_magnetic_moments",
                  "set_initial_charges", "set_constraint", "__delitem__", "repeat_inplace", "set_calculator"},
    "dict": {"update", "pop", "popitem", "setdefault", "clear", "__setitem__", "__delitem__"},
    "ndarray": {"fill", "sort", "resize", "itemset", "put", "partition", "setfield", "setflags"},
}
# attributes of an ase.Atoms that expose mutable internals (stores through them mutate the object)
ATOMS_INTERNALS = {"positions", "cell", "numbers", "arrays", "pbc", "info"}
FRESH_METHODS = {"copy", "deepcopy", "repeat", "__mul__"}


def _names_loaded(node):
    return {n.id for n in ast.walk(node) if isinstance(n, ast.Name) and isinstance(n.ctx, ast.Load)}


def _names_stored(nodes):
    out = set()
    for st in nodes:
        for n in ast.walk(st):
            if isinstance(n, ast.Name) and isinstance(n.ctx, (ast.Store, ast.Del)):
                out.add(n.id)
            elif isinstance(n, ast.AugAssign) and isinstance(n.target, ast.Name):
                out.add(n.target.id)
    return out


def _loops(fn):
    """For / While loops of a function in source order, not descending into nested defs."""
    out = []

    def rec(stmts):
        for st in stmts:
            if isinstance(st, (ast.FunctionDef, ast.ClassDef, ast.Lambda)):
                continue
            if isinstance(st, (ast.For, ast.While)):
                out.append(st)
            for field in ("body", "orelse", "finalbody", "handlers"):
                sub = getattr(st, field, None)
                if sub:
                    rec([h for h in sub] if field != "handlers" else [s for h in sub for s in h.body])

    rec(fn.body)
    return out


def _is_fresh_of_invariant(expr, invariant):
    """expr is `x.copy()` / `copy.deepcopy(x)` / `copy(x)` for a loop-invariant name x."""
    if isinstance(expr, ast.Call):
        f = expr.func
        if isinstance(f, ast.Attribute) and f.attr in FRESH_METHODS and isinstance(f.value, ast.Name) and not expr.args:
            return f.value.id in invariant
        if isinstance(f, ast.Attribute) and f.attr in ("deepcopy", "copy") and len(expr.args) == 1 and isinstance(expr.args[0], ast.Name):
            return expr.args[0].id in invariant
        if isinstance(f, ast.Name) and f.id in ("deepcopy", "copy") and len(expr.args) == 1 and isinstance(expr.args[0], ast.Name):
            return expr.args[0].id in invariant
    return False


def _reset_before_use(stmts, var, invariant):
    """Scan a statement list: 'reset' if var is assigned a fresh copy of an invariant before any read,
    'read' if it is read first, None if neither happens."""
    for st in stmts:
        if isinstance(st, ast.Assign) and len(st.targets) == 1 and isinstance(st.targets[0], ast.Name) and st.targets[0].id == var:
            if var in _names_loaded(st.value):
                return "read"
            return "reset" if _is_fresh_of_invariant(st.value, invariant) else "read"
        if isinstance(st, ast.If):
            if var in _names_loaded(st.test):
                return "read"
            a = _reset_before_use(st.body, var, invariant)
            b = _reset_before_use(st.orelse, var, invariant)
            if a == "read" or b == "read":
                return "read"
            if a == "reset" and b == "reset":
                return "reset"
            if a == "reset" or b == "reset":
                # assigned on one branch only: a later read would see the carried value on the other branch
                rest_reads = any(var in _names_loaded(s) for s in stmts[stmts.index(st) + 1:])
                return "read" if rest_reads else None
            continue
        if var in _names_loaded(st) or var in _names_stored([st]):
            return "read"
    return None


def loop_reset(relpath, qualname, loop_ordinal, var, prop, clause):
    """Obligation: `var` carries no state between iterations of loop #loop_ordinal (it is re-initialised from a fresh
    copy of a loop-invariant value before its first use in the body)."""
    t0 = time.time()
    name = f"{prop}/{qualname}/{clause}"
    try:
        fi = extract.load_module(relpath).function(qualname)
    except extract.ExtractError as e:
        return dict(name=name, status="undecided", reason=str(e), property_level=False, backend="frame")
    loops = _loops(fi.node)
    if loop_ordinal >= len(loops):
        return dict(name=name, status="undecided", reason=f"loop #{loop_ordinal} not found", property_level=False,
                    backend="frame", function=fi.describe())
    lp = loops[loop_ordinal]
    assigned_in_loop = _names_stored(lp.body) | (_names_stored([lp.target]) if isinstance(lp, ast.For) else set())
    all_names = {n.id for n in ast.walk(fi.node) if isinstance(n, ast.Name)}
    invariant = all_names - assigned_in_loop
    r = _reset_before_use(lp.body, var, invariant)
    if var not in assigned_in_loop:
        status, why = "discharged", f"{var} is never assigned inside the loop"
    elif r == "reset":
        status, why = "discharged", f"{var} is re-initialised from a fresh copy of a loop-invariant value before its first use"
    else:
        status, why = "refuted", (f"{var} is assigned inside loop #{loop_ordinal} (line {lp.lineno}) and read in a later "
                                  f"iteration before being re-initialised from a loop-invariant value")
    return dict(name=name, status=status, backend="frame(ast data-flow)", time_s=time.time() - t0, reason=why,
                property_level=False, function=fi.describe(), model=why)


def store_uses_loop_target(relpath, qualname, loop_ordinal, array_name, prop, clause):
    """Obligation: every subscript store into `array_name` inside loop #loop_ordinal uses an index that depends on the
    loop's target variable(s) (so distinct iterations write distinct elements)."""
    t0 = time.time()
    name = f"{prop}/{qualname}/{clause}"
    try:
        fi = extract.load_module(relpath).function(qualname)
    except extract.ExtractError as e:
        return dict(name=name, status="undecided", reason=str(e), property_level=False, backend="frame")
    loops = _loops(fi.node)
    if loop_ordinal >= len(loops) or not isinstance(loops[loop_ordinal], ast.For):
        return dict(name=name, status="undecided", reason=f"for loop #{loop_ordinal} not found", property_level=False,
                    backend="frame", function=fi.describe())
    lp = loops[loop_ordinal]
    targets = _names_stored([lp.target])
    # forward data-flow inside the body: names derived from the loop target
    derived = set(targets)
    changed = True
    while changed:
        changed = False
        for n in ast.walk(lp):
            if isinstance(n, ast.Assign) and _names_loaded(n.value) & derived:
                for t in n.targets:
                    for nm in _names_stored([t]):
                        if nm not in derived:
                            derived.add(nm)
                            changed = True
    stores, bad = 0, []
    for n in ast.walk(lp):
        tgt = None
        if isinstance(n, ast.Assign):
            for t in n.targets:
                if isinstance(t, ast.Subscript) and isinstance(t.value, ast.Name) and t.value.id == array_name:
                    tgt = t
        elif isinstance(n, ast.AugAssign) and isinstance(n.target, ast.Subscript) and isinstance(n.target.value, ast.Name) \
                and n.target.value.id == array_name:
            tgt = n.target
        elif isinstance(n, ast.Call) and n.args and isinstance(n.args[0], ast.Name) and n.args[0].id == array_name \
                and isinstance(n.func, ast.Name) and n.func.id in ("itemset",):
            stores += 1
            if not (_names_loaded(n.args[1]) & derived):
                bad.append(n.lineno)
            continue
        if tgt is not None:
            stores += 1
            # the element index must involve the outer loop target (directly or through derived names)
            if not (_names_loaded(tgt.slice) & derived):
                bad.append(tgt.lineno)
    if stores == 0:
        return dict(name=name, status="undecided", reason=f"no store into {array_name} inside the loop", property_level=False,
                    backend="frame", function=fi.describe())
    if bad:
        why = f"store into {array_name} at line(s) {bad} does not depend on the loop target {sorted(targets)}"
        return dict(name=name, status="refuted", backend="frame(ast data-flow)", time_s=time.time() - t0, reason=why,
                    property_level=False, function=fi.describe(), model=why)
    return dict(name=name, status="discharged", backend="frame(ast data-flow)", time_s=time.time() - t0,
                reason=f"{stores} store(s) into {array_name}, all indexed through the loop target", property_level=False,
                function=fi.describe())


def _closure(lp, seeds):
    derived = set(seeds)
    changed = True
    while changed:
        changed = False
        for n in ast.walk(lp):
            if isinstance(n, ast.Assign) and _names_loaded(n.value) & derived:
                for t in n.targets:
                    for nm in _names_stored([t]):
                        if nm not in derived:
                            derived.add(nm)
                            changed = True
    return derived


# functions that may return their argument itself or a view of it (the result aliases the argument)
VIEW_FUNCS = {"asarray", "asanyarray", "ascontiguousarray", "reshape", "ravel", "squeeze", "atleast_1d", "atleast_2d", "transpose",
              "expand_dims", "broadcast_to", "swapaxes", "moveaxis", "view"}


def param_not_mutated(relpath, qualname, param, typ, prop, clause, callee_summaries=None, may_alias=False):
    """Obligation (assigns \\nothing on `param`): on no path is the caller's object mutated — no attribute / subscript
    store through it, no mutator method of its type, and it is only passed to callees known not to mutate — unless the
    name has been rebound to a fresh copy first. Aliases `q = param` are tracked."""
    t0 = time.time()
    name = f"{prop}/{qualname}/{clause}"
    callee_summaries = callee_summaries or {}
    try:
        fi = extract.load_module(relpath).function(qualname)
    except extract.ExtractError as e:
        return dict(name=name, status="undecided", reason=str(e), property_level=False, backend="frame")
    muts = MUTATORS.get(typ, set())
    problems = []

    def scan(stmts, live):
        """live: names that currently alias the caller's object. Returns live set after the block."""
        for st in stmts:
            if isinstance(st, (ast.FunctionDef, ast.ClassDef)):
                continue
            if isinstance(st, ast.If):
                a = scan(st.body, set(live))
                b = scan(st.orelse, set(live))
                check_expr(st.test, live)
                live = a | b
                continue
            if isinstance(st, (ast.For, ast.While)):
                check_expr(st.iter if isinstance(st, ast.For) else st.test, live)
                live = live | scan(st.body, set(live)) | scan(st.body, set(live))
                continue
            if isinstance(st, ast.Try):
                for blk in [st.body] + [h.body for h in st.handlers] + [st.orelse, st.finalbody]:
                    live = live | scan(blk, set(live))
                continue
            if isinstance(st, ast.With):
                for it in st.items:
                    check_expr(it.context_expr, live)
                live = scan(st.body, live)
                continue
            if isinstance(st, ast.Assign):
                check_expr(st.value, live)
                for t in st.targets:
                    check_store(t, live)
                # aliasing / rebinding
                for t in st.targets:
                    if isinstance(t, ast.Name):
                        if isinstance(st.value, ast.Name) and st.value.id in live:
                            live.add(t.id)
                        elif isinstance(st.value, ast.Attribute) and isinstance(st.value.value, ast.Name) and st.value.value.id in live \
                                and typ == "ase.Atoms" and st.value.attr in ATOMS_INTERNALS:
                            live.add(t.id)  # e.g. cell = atoms.cell  (a view of the internals)
                        elif may_alias and _may_alias(st.value, live):
                            live.add(t.id)  # x = live.method(...) / np.asarray(live...) / live.attr[...] : may be the object itself
                        else:
                            live.discard(t.id)
                continue
            if isinstance(st, ast.AugAssign):
                check_expr(st.value, live)
                if isinstance(st.target, ast.Name) and st.target.id in live:
                    problems.append((st.lineno, f"in-place operator on {st.target.id}"))
                else:
                    check_store(st.target, live)
                continue
            for n in ast.iter_child_nodes(st):
                if isinstance(n, ast.expr):
                    check_expr(n, live)
        return live

    def _root(e):
        while isinstance(e, (ast.Attribute, ast.Subscript)):
            e = e.value
        return e

    def _may_alias(v, live):
        """conservative: the value may be the caller's object or a view into it"""
        if isinstance(v, (ast.Attribute, ast.Subscript)):
            r = _root(v)
            return isinstance(r, ast.Name) and r.id in live
        if isinstance(v, ast.Call):
            f = v.func
            if isinstance(f, ast.Attribute):
                r = _root(f.value)
                if isinstance(r, ast.Name) and r.id in live and f.attr not in FRESH_METHODS:
                    return True  # a method of the object that is not known to return a fresh copy
                if f.attr in VIEW_FUNCS and any(_may_alias(a, live) or (isinstance(a, ast.Name) and a.id in live) for a in v.args):
                    return True
            if isinstance(f, ast.Name) and f.id in VIEW_FUNCS and any(_may_alias(a, live) or (isinstance(a, ast.Name) and a.id in live) for a in v.args):
                return True
        return False

    def check_store(t, live):
        base = t
        while isinstance(base, (ast.Attribute, ast.Subscript)):
            base = base.value
        if isinstance(t, (ast.Attribute, ast.Subscript)) and isinstance(base, ast.Name) and base.id in live:
            problems.append((t.lineno, f"store through {base.id}: {ast.unparse(t)}"))
        if isinstance(t, (ast.Tuple, ast.List)):
            for e in t.elts:
                check_store(e, live)

    def check_expr(e, live):
        for n in ast.walk(e):
            if isinstance(n, ast.Call):
                f = n.func
                if isinstance(f, ast.Attribute):
                    base = f.value
                    while isinstance(base, (ast.Attribute, ast.Subscript)):
                        base = base.value
                    if isinstance(base, ast.Name) and base.id in live and f.attr in muts:
                        problems.append((n.lineno, f"mutator call {ast.unparse(f)}()"))
                # passing the live object to a callee
                fname = f.attr if isinstance(f, ast.Attribute) else (f.id if isinstance(f, ast.Name) else None)
                for a in list(n.args) + [k.value for k in n.keywords]:
                    if isinstance(a, ast.Name) and a.id in live and fname is not None:
                        if callee_summaries.get(fname) == "mutates":
                            problems.append((n.lineno, f"passed to {fname}, which may mutate its argument"))

    scan(fi.node.body, {param})
    if problems:
        why = "; ".join(f"line {ln}: {msg}" for ln, msg in problems[:6])
        return dict(name=name, status="refuted", backend="frame(ast)", time_s=time.time() - t0, reason=why,
                    property_level=False, function=fi.describe(), model=why)
    return dict(name=name, status="discharged", backend="frame(ast)", time_s=time.time() - t0,
                reason=f"no store, in-place operator or mutator call reaches the caller's `{param}`", property_level=False,
                function=fi.describe())


def recorded_key_is_stored_key(relpath, qualname, record_var, container, prop, clause):
    """Obligation (rollback records address what was written): in the function, the key appended to the record path
    (`record_var = record_var + (K,)`) is the very name K used in every store / membership test on `container`
    (`container[K] = ...`, `K in container`, `container[K]`), and K is not rebound in between."""
    t0 = time.time()
    name = f"{prop}/{qualname}/{clause}"
    try:
        fi = extract.load_module(relpath).function(qualname)
    except extract.ExtractError as e:
        return dict(name=name, status="undecided", reason=str(e), property_level=False, backend="frame")
    appended, used, problems = [], [], []
    for n in ast.walk(fi.node):
        if isinstance(n, ast.Assign) and len(n.targets) == 1 and isinstance(n.targets[0], ast.Name) and n.targets[0].id == record_var \
                and isinstance(n.value, ast.BinOp) and isinstance(n.value.op, ast.Add) and isinstance(n.value.right, ast.Tuple) \
                and len(n.value.right.elts) == 1:
            k = n.value.right.elts[0]
            appended.append((n.lineno, ast.unparse(k), isinstance(k, ast.Name)))
        if isinstance(n, ast.Subscript) and isinstance(n.value, ast.Name) and n.value.id == container:
            used.append((n.lineno, ast.unparse(n.slice), isinstance(n.slice, ast.Name)))
        if isinstance(n, ast.Compare) and len(n.ops) == 1 and isinstance(n.ops[0], (ast.In, ast.NotIn)) \
                and isinstance(n.comparators[0], ast.Name) and n.comparators[0].id == container:
            used.append((n.lineno, ast.unparse(n.left), isinstance(n.left, ast.Name)))
    if not appended:
        problems.append((fi.node.lineno, f"no `{record_var} = {record_var} + (key,)` found"))
    keys = {k for _, k, _ in appended}
    if len(keys) > 1:
        problems.append((appended[0][0], f"several different keys are recorded: {sorted(keys)}"))
    for ln, k, is_name in appended:
        if not is_name:
            problems.append((ln, f"the recorded key `{k}` is not a plain name"))
    for ln, k, is_name in used:
        if k not in keys:
            problems.append((ln, f"`{container}` is accessed with `{k}` but the record path holds `{sorted(keys)}`"))
    # the key must be bound exactly once before use
    for k in keys:
        binds = [n.lineno for n in ast.walk(fi.node) if isinstance(n, ast.Assign) and any(isinstance(t, ast.Name) and t.id == k for t in n.targets)]
        if len(binds) != 1:
            problems.append((fi.node.lineno, f"`{k}` is bound {len(binds)} times"))
    if problems:
        why = "; ".join(f"line {ln}: {msg}" for ln, msg in problems[:6])
        return dict(name=name, status="refuted", backend="frame(ast)", time_s=time.time() - t0, reason=why, property_level=False,
                    function=fi.describe(), model=why)
    return dict(name=name, status="discharged", backend="frame(ast)", time_s=time.time() - t0, property_level=False,
                reason=f"every access to `{container}` uses the key recorded in `{record_var}` ({sorted(keys)})", function=fi.describe())


def calls_inside_loop(relpath, qualname, callee, loop_ordinal, prop, clause):
    """Obligation (per-iteration effect): every call of `callee` in the function lies inside loop number `loop_ordinal`
    (source order) — e.g. every detection happens once per potential configuration, never once for all of them."""
    t0 = time.time()
    name = f"{prop}/{qualname}/{clause}"
    try:
        fi = extract.load_module(relpath).function(qualname)
    except extract.ExtractError as e:
        return dict(name=name, status="undecided", reason=str(e), property_level=False, backend="frame")
    loops = _loops(fi.node)
    if loop_ordinal >= len(loops):
        return dict(name=name, status="undecided", reason=f"loop #{loop_ordinal} not found", property_level=False, backend="frame(ast)")
    lp = loops[loop_ordinal]
    inside = {id(n) for n in ast.walk(lp)}

    def is_call(n):
        return isinstance(n, ast.Call) and ((isinstance(n.func, ast.Name) and n.func.id == callee)
                                            or (isinstance(n.func, ast.Attribute) and n.func.attr == callee))

    calls = [n for n in ast.walk(fi.node) if is_call(n)]
    outside = [n.lineno for n in calls if id(n) not in inside]
    if not calls:
        return dict(name=name, status="undecided", reason=f"no call of {callee} found", property_level=False, backend="frame(ast)",
                    function=fi.describe())
    if outside:
        why = f"call(s) of {callee} outside the loop at line(s) {outside} (loop starts at line {lp.lineno})"
        return dict(name=name, status="refuted", backend="frame(ast)", time_s=time.time() - t0, reason=why, property_level=False,
                    function=fi.describe(), model=why)
    return dict(name=name, status="discharged", backend="frame(ast)", time_s=time.time() - t0, property_level=False,
                reason=f"all {len(calls)} calls of {callee} are inside the loop starting at line {lp.lineno}", function=fi.describe())


def writes_only_through(relpath, qualname, allowed_attrs, private_attrs, prop, clause):
    """Obligation (a composite operation is a history of contracted setters): every attribute store in the function is
    `<name>.<attr> = ...` with `attr` one of `allowed_attrs` (properties whose setters are under contract); no private
    attribute in `private_attrs` is stored, deleted or augmented, and neither `setattr`, `delattr`, `__setattr__`,
    `__dict__` nor `vars()` is used. The class invariant after the function then follows from the setter contracts."""
    t0 = time.time()
    name = f"{prop}/{qualname}/{clause}"
    try:
        fi = extract.load_module(relpath).function(qualname)
    except extract.ExtractError as e:
        return dict(name=name, status="undecided", reason=str(e), property_level=False, backend="frame")
    problems, stores = [], []

    def store_target(t, ln):
        if isinstance(t, (ast.Tuple, ast.List)):
            for e in t.elts:
                store_target(e, ln)
        elif isinstance(t, ast.Starred):
            store_target(t.value, ln)
        elif isinstance(t, ast.Attribute):
            if t.attr in allowed_attrs and isinstance(t.value, ast.Name):
                stores.append((ln, ast.unparse(t)))
            else:
                problems.append((ln, f"store to `{ast.unparse(t)}` does not go through a contracted setter {sorted(allowed_attrs)}"))
        elif isinstance(t, ast.Subscript):
            base = t.value
            while isinstance(base, (ast.Subscript, ast.Attribute)):
                if isinstance(base, ast.Attribute) and (base.attr in private_attrs or base.attr in allowed_attrs):
                    problems.append((ln, f"element store through `{ast.unparse(base)}`"))
                    break
                base = base.value

    for n in ast.walk(fi.node):
        if isinstance(n, ast.Assign):
            for t in n.targets:
                store_target(t, n.lineno)
        elif isinstance(n, (ast.AugAssign, ast.AnnAssign)):
            if isinstance(n, ast.AugAssign) and isinstance(n.target, ast.Attribute):
                problems.append((n.lineno, f"augmented store to `{ast.unparse(n.target)}`"))
            else:
                store_target(n.target, n.lineno)
        elif isinstance(n, ast.Delete):
            for t in n.targets:
                if isinstance(t, (ast.Attribute, ast.Subscript)):
                    problems.append((n.lineno, f"`del {ast.unparse(t)}`"))
        elif isinstance(n, ast.Call):
            f = n.func
            fname = f.id if isinstance(f, ast.Name) else (f.attr if isinstance(f, ast.Attribute) else None)
            if fname in ("setattr", "delattr", "__setattr__", "__delattr__", "vars"):
                problems.append((n.lineno, f"call of `{fname}`"))
        elif isinstance(n, ast.Attribute) and (n.attr == "__dict__" or (n.attr in private_attrs and isinstance(n.ctx, (ast.Store, ast.Del)))):
            problems.append((n.lineno, f"use of `{ast.unparse(n)}`"))
    if not stores and not problems:
        problems.append((fi.node.lineno, "no store through a contracted setter found (vacuous)"))
    if problems:
        why = "; ".join(f"line {ln}: {msg}" for ln, msg in problems[:6])
        return dict(name=name, status="refuted", backend="frame(ast)", time_s=time.time() - t0, reason=why, property_level=False,
                    function=fi.describe(), model=why)
    return dict(name=name, status="discharged", backend="frame(ast)", time_s=time.time() - t0, property_level=False,
                reason=f"{len(stores)} attribute stores, all through contracted setters: {sorted({s for _, s in stores})}",
                function=fi.describe())


def fields_encapsulated(relpath, cls, private_attrs, writer_methods, prop, clause, package="abtem"):
    """Obligation (the class invariant is owned by the class): (1) inside `cls` only the methods in `writer_methods`
    (the ones under contract, inlined into them, or covered by the stated bounded rows) store or delete a private field;
    (2) no other class in the package derives from `cls`; (3) nowhere else in the package is a private field of that name
    stored or deleted through anything but a plain `self` (which, by (2), is not an instance of `cls`), and
    (4) `setattr` / `__setattr__` / `__dict__` are not applied to anything but `self` outside `cls` and not at all inside.
    Conservative and syntactic: a failure is a candidate only."""
    import glob
    import os
    t0 = time.time()
    name = f"{prop}/{cls}/{clause}"
    root = extract.REPO
    problems, seen_writers, nfiles = [], set(), 0
    for path in sorted(glob.glob(os.path.join(root, package, "**", "*.py"), recursive=True)):
        rel = os.path.relpath(path, root)
        try:
            tree = ast.parse(open(path, encoding="utf-8").read())
        except (SyntaxError, OSError) as e:
            return dict(name=name, status="undecided", reason=f"{rel}: {e}", property_level=False, backend="frame")
        nfiles += 1
        own = None
        for c in ast.walk(tree):
            if isinstance(c, ast.ClassDef):
                if rel == relpath and c.name == cls:
                    own = c
                elif any(ast.unparse(b).split(".")[-1] == cls for b in c.bases):
                    problems.append((rel, c.lineno, f"class `{c.name}` derives from `{cls}`"))
        own_nodes = set()
        if own is not None:
            for m in own.body:
                if isinstance(m, (ast.FunctionDef, ast.AsyncFunctionDef)):
                    for n in ast.walk(m):
                        own_nodes.add(id(n))
                        if isinstance(n, ast.Attribute) and n.attr in private_attrs and isinstance(n.ctx, (ast.Store, ast.Del)):
                            seen_writers.add(m.name)
                            if m.name not in writer_methods:
                                problems.append((rel, n.lineno, f"`{cls}.{m.name}` stores `{ast.unparse(n)}` but is not a declared writer"))
                        if isinstance(n, ast.Attribute) and n.attr == "__dict__":
                            problems.append((rel, n.lineno, f"`{cls}.{m.name}` uses `__dict__`"))
                        if isinstance(n, ast.Call) and ast.unparse(n.func).split(".")[-1] in ("setattr", "__setattr__", "delattr", "__delattr__"):
                            problems.append((rel, n.lineno, f"`{cls}.{m.name}` calls `{ast.unparse(n.func)}`"))
        for n in ast.walk(tree):
            if id(n) in own_nodes:
                continue
            if isinstance(n, ast.Attribute) and n.attr in private_attrs and isinstance(n.ctx, (ast.Store, ast.Del)) \
                    and not (isinstance(n.value, ast.Name) and n.value.id == "self"):
                problems.append((rel, n.lineno, f"store to `{ast.unparse(n)}` from outside `{cls}`"))
            if isinstance(n, ast.Call) and ast.unparse(n.func).split(".")[-1] in ("setattr", "__setattr__") and n.args:
                if isinstance(n.func, ast.Attribute) and n.func.attr == "__setattr__" and len(n.args) == 2:
                    tgt, key = n.func.value, n.args[0]  # recv.__setattr__(key, value): the receiver is written
                else:
                    tgt, key = n.args[0], (n.args[1] if len(n.args) > 1 else None)  # setattr(obj, key, value) / object.__setattr__(obj, key, value)
                const_ok = isinstance(key, ast.Constant) and key.value not in private_attrs
                self_ok = (isinstance(tgt, ast.Name) and tgt.id == "self") or ast.unparse(tgt) == "super()"
                if not const_ok and not self_ok:
                    problems.append((rel, n.lineno, f"`{ast.unparse(n)[:80]}` may write a private field of a `{cls}`"))
    if not seen_writers and not problems:
        problems.append((relpath, 0, f"no method of `{cls}` stores a private field (vacuous: class or fields renamed?)"))
    fn = None
    try:
        fn = extract.load_module(relpath).function(f"{cls}.__init__").describe()
    except Exception:
        pass
    if problems:
        why = "; ".join(f"{f}:{ln}: {msg}" for f, ln, msg in problems[:6])
        return dict(name=name, status="refuted", backend="frame(ast)", time_s=time.time() - t0, reason=why, property_level=False,
                    model=why, **({"function": fn} if fn else {}))
    return dict(name=name, status="discharged", backend="frame(ast)", time_s=time.time() - t0, property_level=False,
                reason=f"{nfiles} files of `{package}` scanned; writers inside `{cls}`: {sorted(seen_writers)}; no subclass, no foreign store",
                **({"function": fn} if fn else {}))
