"""Native (CPython, IEEE floats) evaluation of a sidecar contract on the real function.

Used for (a) replaying solver counter-models against the real code before anything is reported and (b) the CPython
cross-check: the contract must hold natively on random inputs satisfying `requires` (guards against a contract or an
encoding that misrepresents Python).
"""

from __future__ import annotations

import importlib
import math

import numpy as np
import random

from .contracts import Alt, Bool, Const, Dct, Int, Obj, Real, Seq, Sort, Str, Tup, _Scalar, configurations


class R(float):
    """float with tolerant comparisons (A-REAL contracts are exact over the reals; natively they hold to rounding)."""

    REL, ABS = 1e-9, 0.0

    def _eq(self, o):
        try:
            return math.isclose(float(self), float(o), rel_tol=self.REL, abs_tol=self.ABS)
        except (TypeError, ValueError):
            return False

    def __eq__(self, o):
        return self._eq(o)

    def __ne__(self, o):
        return not self._eq(o)

    def __le__(self, o):
        return float(self) <= float(o) or self._eq(o)

    def __ge__(self, o):
        return float(self) >= float(o) or self._eq(o)

    def __lt__(self, o):
        return float(self) < float(o) and not self._eq(o)

    def __gt__(self, o):
        return float(self) > float(o) and not self._eq(o)

    __hash__ = float.__hash__


def _wrapnum(fn):
    def w(self, o):
        try:
            r = fn(float(self), float(o))
        except TypeError:
            return NotImplemented
        return R(r) if isinstance(r, float) else r

    return w


for _n in ("add", "sub", "mul", "truediv", "pow", "radd", "rsub", "rmul", "rtruediv", "rpow"):
    setattr(R, f"__{_n}__", _wrapnum(getattr(float, f"__{_n}__")))
R.__neg__ = lambda self: R(-float(self))
R.__abs__ = lambda self: R(abs(float(self)))


class Proxy:
    """Read-only view of an abTEM object whose attribute values are wrapped (tolerant float comparisons)."""

    def __init__(self, obj):
        object.__setattr__(self, "_obj", obj)

    def __getattr__(self, name):
        v = getattr(object.__getattribute__(self, "_obj"), name)
        if callable(v) and not isinstance(v, type):
            return lambda *a, **k: wrap(v(*[unwrap(x) for x in a], **{kk: unwrap(x) for kk, x in k.items()}))
        return wrap(v)


def unwrap(v):
    if isinstance(v, Proxy):
        return object.__getattribute__(v, "_obj")
    if isinstance(v, R):
        return float(v)
    if isinstance(v, tuple):
        return tuple(unwrap(x) for x in v)
    if isinstance(v, list):
        return [unwrap(x) for x in v]
    return v


class _RowNative(np.ndarray):
    """(1, d) ndarray standing for the witness row of a pointwise contract; kept as an array by `wrap`"""

    def __new__(cls, a):
        return np.asarray(a).view(cls)


def wrap(v):
    if isinstance(v, _RowNative):
        return np.asarray(v)
    if type(v).__module__.startswith("abtem") and hasattr(v, "__dict__"):
        return Proxy(v)

    if isinstance(v, (bool, np.bool_)):
        return bool(v)
    if isinstance(v, (int, np.integer)):
        return int(v)
    if isinstance(v, (float, np.floating)):
        return R(float(v))
    if isinstance(v, tuple):
        return tuple(wrap(x) for x in v)
    if isinstance(v, list):
        return [wrap(x) for x in v]
    if isinstance(v, dict):
        return {k: wrap(x) for k, x in v.items()}
    if isinstance(v, np.ndarray):
        return wrap(v.tolist())
    return v


HELPERS = dict(
    forall=lambda fn, lo, hi: all(fn(i) for i in range(int(lo), int(hi))),
    exists=lambda fn, lo, hi: any(fn(i) for i in range(int(lo), int(hi))),
    implies=lambda a, b: (not a) or b,
    iff=lambda a, b: bool(a) == bool(b),
    ite=lambda c, a, b: a if c else b,
    psum=lambda s, k: sum(s[: int(k)]),
    ceil_div=lambda a, b: -((-a) // b),
    is_none=lambda x: x is None,
    real=lambda x: R(float(x)),
)


def live_function(spec):
    dotted = spec["module"][:-3].replace("/", ".")
    if dotted.endswith(".__init__"):
        dotted = dotted[:-9]
    mod = importlib.import_module(dotted)
    q = spec["qualname"]
    setter = q.endswith(".setter")
    if setter:
        q = q[:-7]
    obj = mod
    parts = q.split(".")
    for p in parts[:-1]:
        obj = getattr(obj, p)
    attr = obj.__dict__.get(parts[-1]) if isinstance(obj, type) else None
    if attr is None:
        attr = getattr(obj, parts[-1])
    return attr, setter


def from_model(sort, v, spec=None, name=None):
    """Model value (JSON-ish) -> native Python value of the parameter's sort."""
    if isinstance(sort, Const):
        return sort.value
    if isinstance(sort, _Scalar):
        if sort.kind == "int":
            return int(v)
        if sort.kind == "real":
            return float(v)
        return bool(v)
    if isinstance(sort, Str):
        return str(v)
    if isinstance(sort, Seq):
        items = [from_model(sort.elem, x) for x in v if x != "..."]
        return tuple(items) if sort.pytype == "tuple" else items
    if isinstance(sort, Tup):
        items = [from_model(s, x) for s, x in zip(sort.elems, v)]
        return tuple(items) if sort.pytype == "tuple" else items
    if isinstance(sort, Dct):
        return {k: from_model(fs, v.get(k)) for k, fs in sort.fields.items()}
    if isinstance(sort, Obj):
        build = (spec or {}).get("native_build", {}).get(name)
        if build is None:
            raise ValueError(f"no native_build for object parameter {name}")
        def field(s, x):
            try:
                return from_model(s, x)
            except ValueError:
                return None  # opaque / stub fields: the object builder supplies the real thing

        return build({k: field(s, v.get(k)) for k, s in sort.fields.items()})
    if type(sort).__name__ == "RowArr":
        return _RowNative(np.array([[from_model(e, x) for e, x in zip(sort.elems, v)]]))  # the witness row as a (1, d) array
    build = (spec or {}).get("native_build", {}).get(name)
    if build is not None:
        return build(v)  # opaque parameters: the contract module says how a concrete value is made
    raise ValueError(f"cannot build native value for {sort!r}")


def _fits(s, v):
    if isinstance(s, Const) and (callable(s.value) or type(s.value).__name__ == "ExternalFn"):
        return True  # a stubbed method of the symbolic object: the native object has the real one
    if type(s).__name__ == "Opq":
        return True  # opaque values are made by the contract module's native_build
    if isinstance(s, Const):
        return s.value == v if s.value is not None else v is None
    if v is None:
        return False
    if isinstance(s, (Seq, Tup)):
        if not isinstance(v, (list, tuple)):
            return False
        if isinstance(s, Tup):
            return len(v) == len(s.elems) and all(_fits(e, x) for e, x in zip(s.elems, v))
        return all(_fits(s.elem, x) for x in v if x != "...")
    if isinstance(s, _Scalar):
        if isinstance(v, (list, tuple, dict, str)):
            return False
        if s.kind == "bool":
            return isinstance(v, bool)
        return not isinstance(v, bool) or s.kind == "int"
    if isinstance(s, Str):
        return isinstance(v, str)
    if isinstance(s, (Obj, Dct)):
        return isinstance(v, dict) and all(_fits(fs, v.get(k)) for k, fs in s.fields.items())
    return True


def match_cfg(spec, args):
    """Find the configuration (Alt choices) whose sorts fit the given JSON-ish argument values."""
    for cfg in configurations(spec):
        if all(_fits(s, args.get(k)) for k, s in cfg.items()):
            return cfg
    return None


def check(spec, args):
    """Run the real function natively on args (JSON-ish dict) and evaluate the contract.

    Returns list of (clause, ok, detail); ok None = input does not satisfy `requires` (not a witness)."""
    tol = spec.get("native_tol")
    if not tol:
        return _check(spec, args)
    old = (R.REL, R.ABS)
    R.REL, R.ABS = tol.get("rel", R.REL), tol.get("abs", R.ABS)  # e.g. functions that return float32 arrays
    try:
        return _check(spec, args)
    finally:
        R.REL, R.ABS = old


def _check(spec, args):
    cfg = match_cfg(spec, args)
    if cfg is None:
        return [("requires", None, "arguments fit no configuration of the contract")]
    env = {k: from_model(s, args.get(k), spec, k) for k, s in cfg.items()}
    wenv = {k: wrap(v) for k, v in env.items()}
    dotted = spec["module"][:-3].replace("/", ".")
    glob = dict(vars(importlib.import_module(dotted[:-9] if dotted.endswith(".__init__") else dotted)))
    glob.update(HELPERS)
    glob.update(spec.get("native_helpers") or {})  # native meaning of uninterpreted spec functions (ufr / ufo names)
    genv = dict(wenv)
    for gname, gexpr in (spec.get("ghost") or {}).items():
        try:
            genv[gname] = eval(gexpr, {**glob, **genv})
        except Exception as e:  # noqa: BLE001
            return [("requires", None, f"ghost {gname} not evaluable: {e}")]
    for r in spec.get("requires", []):
        if isinstance(r, tuple):
            if not r[0](cfg):
                continue
            r = r[1]
        try:
            if not eval(r, {**glob, **genv}):
                return [("requires", None, f"requires `{r}` false")]
        except Exception as e:  # noqa: BLE001
            return [("requires", None, f"requires `{r}` not evaluable: {e}")]
    fn, setter = live_function(spec)
    import copy

    old = {k: copy.deepcopy(v) for k, v in env.items()}
    raised = None
    result = None
    try:
        if setter:
            names = [k for k in env if k != "self"]
            fn.fset(env["self"], env[names[0]])
        elif isinstance(fn, property):
            result = fn.fget(env["self"])
        elif isinstance(fn, (staticmethod, classmethod)):
            result = fn.__func__(**env)
        else:
            extra = set(spec.get("extra") or {})
            result = fn(**{k: v for k, v in env.items() if k not in extra})
        import types

        if isinstance(result, types.GeneratorType):
            result = list(result)
        if (spec.get("options") or {}).get("pointwise") and isinstance(result, np.ndarray) and result.size == 1:
            result = result.reshape(-1)[0].item()  # pointwise contract replayed on a single row / pixel: the one element
    except Exception as e:  # noqa: BLE001
        raised = e
    out = []
    post = dict(genv)
    post.update({k: wrap(v) for k, v in env.items()})
    post["old"] = {k: wrap(v) for k, v in old.items()}
    for k, v in old.items():
        if "old_" + k not in post:
            post["old_" + k] = wrap(v)
    raises = spec.get("raises") or {}
    if raised is None:
        post["result"] = wrap(result)
        for gname, gexpr in (spec.get("post_ghost") or {}).items():
            try:
                post[gname] = wrap(eval(gexpr, {**glob, **{k: unwrap(v) for k, v in post.items()}}))
            except Exception as e:  # noqa: BLE001
                out.append((f"post-ghost-{gname}", False, f"{type(e).__name__}: {e}"))
        for cname, cexpr in spec.get("ensures", []):
            try:
                ok = bool(eval(cexpr, {**glob, **post}))
                out.append((cname, ok, f"result={result!r}"[:300]))
            except Exception as e:  # noqa: BLE001
                out.append((cname, False, f"postcondition raised {type(e).__name__}: {e}; result={result!r}"[:300]))
        for exc, cond in raises.items():
            try:
                c = bool(eval(cond, {**glob, **post}))
            except Exception as e:  # noqa: BLE001
                c = False
            out.append((f"raises-{exc}-if", not c, f"returned {result!r} although `{cond}` holds"[:300] if c else ""))
    else:
        exc = type(raised).__name__
        post["result"] = None
        if exc in raises:
            try:
                c = bool(eval(raises[exc], {**glob, **post}))
            except Exception as e:  # noqa: BLE001
                c = False
            out.append((f"raises-{exc}-only-if", c, f"raised {exc}: {raised} although `{raises[exc]}` is false" if not c else ""))
        elif exc in (spec.get("may_raise") or []):
            pass
        else:
            out.append((f"no-unexpected-{exc}", False, f"raised {exc}: {raised}"))
        for cname, cexpr in spec.get("ensures_on_raise", []):
            try:
                out.append((cname, bool(eval(cexpr, {**glob, **post})), f"after {exc}"))
            except Exception as e:  # noqa: BLE001
                out.append((cname, False, f"postcondition raised {e}"))
    return out


# ---- random inputs for the CPython cross-check ------------------------------------------------


def random_value(sort, rng, depth=0):
    if isinstance(sort, Const):
        return sort.value
    if isinstance(sort, _Scalar):
        if sort.kind == "int":
            return rng.choice([0, 1, 2, 3, 4, 5, 7, 8, 12, 17, 31, 64]) if rng.random() < 0.8 else rng.randint(-5, 200)
        if sort.kind == "real":
            return rng.choice([0.5, 1.0, 1.5, 2.0, 0.1, 3.7, 10.0, 0.25]) if rng.random() < 0.6 else rng.uniform(-20, 100)
        return rng.random() < 0.5
    if isinstance(sort, Str):
        return rng.choice(["a", "same", "odd", "even", "x"])
    if isinstance(sort, Seq):
        n = rng.choice([0, 1, 1, 2, 3, 4])
        return [random_value(sort.elem, rng, depth + 1) for _ in range(n)]
    if isinstance(sort, Tup):
        return [random_value(s, rng, depth + 1) for s in sort.elems]
    if isinstance(sort, (Obj, Dct)):
        return {k: random_value(s, rng, depth + 1) for k, s in sort.fields.items()}
    raise ValueError(f"no random generator for {sort!r}")


def cross_check(spec, n=60, seed=0, max_tries=4000, max_seconds=60):
    """Evaluate the contract natively on up to n random inputs that satisfy requires (within max_seconds)."""
    import time as _time

    rng = random.Random(seed)
    cfgs = list(configurations(spec))
    done, failures, tries = 0, [], 0
    t_end = None  # the clock starts after the first evaluation (which pays for importing the library)
    while done < n and tries < max_tries and (t_end is None or _time.time() < t_end):
        tries += 1
        cfg = rng.choice(cfgs)
        try:
            if spec.get("native_gen") is not None:
                args = spec["native_gen"](rng)
            else:
                args = {k: random_value(s, rng) for k, s in cfg.items()}
            res = check(spec, args)
        except ValueError as e:
            return dict(evaluated=0, failures=[], skipped=str(e))
        if t_end is None:
            t_end = _time.time() + max_seconds
        if res and res[0][1] is None:
            continue
        done += 1
        for cname, ok, detail in res:
            if not ok:
                failures.append(dict(clause=cname, args=args, detail=detail))
    return dict(evaluated=done, failures=failures[:5], tries=tries)
