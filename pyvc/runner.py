"""Runs all contracts of one property (in parallel) and maps the results to the driver's format."""

from __future__ import annotations

import multiprocessing as mp
import os
import time
import traceback

GLOBAL_ASSUMPTIONS = [
    "A-REAL: Python/NumPy floats are mathematical reals in every proof obligation (rounding, overflow, NaN ignored); "
    "every counter-model is replayed natively in IEEE arithmetic before it is reported",
    "A-NOEFFECT: warnings.warn / print / progress bars are no-ops",
    "A-EXTRACT: extraction drops docstrings, annotations, typing.cast, decorators @property/@staticmethod/@classmethod/"
    "@abstractmethod/@overload; @jit functions are never extracted",
    "Python semantics encoded: unbounded ints, floor // and sign-of-divisor %, int() truncation, short-circuit and/or, "
    "chained comparisons, tuple/list/dict with concrete shape, sequences of symbolic length as (length, element function)",
]


_WORK = {}


def _verify_one(task):
    key, ci = task
    spec, registry = _WORK["specs"][key], _WORK["registry"]
    from . import contracts, native

    t0 = time.time()
    if ci == "cross-check":
        cc = None
        if spec.get("cross_check", True):
            try:
                n = spec.get("cross_check_n", 40) * (25 if spec.get("_tier") == "thorough" else 1)
                cc = native.cross_check(spec, n=n, seed=spec.get("_seed", 0), max_tries=100 * n,
                                        max_seconds=20 if spec.get("_tier") != "thorough" else 90)
            except Exception:  # noqa: BLE001
                cc = dict(evaluated=0, failures=[], skipped=traceback.format_exc()[-600:])
        return dict(key=key, ci=ci, cross_check=cc, obligations=[], error=None, trusted=[], inlined=[], used_contracts=[],
                    function=None, paths=0, completed_paths=0, wall=time.time() - t0)
    try:
        r = contracts.verify(spec, registry, only_cfg=ci)
        r["error"] = None
    except Exception:  # noqa: BLE001
        r = dict(obligations=[], function=None, trusted=set(), inlined=set(), used_contracts=set(),
                 error=traceback.format_exc()[-3000:], paths=0, completed_paths=0)
    r["key"], r["ci"] = key, ci
    r["cross_check"] = None
    r["wall"] = time.time() - t0
    r["trusted"] = sorted(r.get("trusted", []))
    r["inlined"] = sorted(r.get("inlined", []))
    r["used_contracts"] = sorted(r.get("used_contracts", []))
    return r


def _merge(parts):
    out = dict(key=parts[0]["key"], obligations=[], function=None, trusted=set(), inlined=set(), used_contracts=set(),
               error=None, paths=0, completed_paths=0, cross_check=None)
    for p in parts:
        if p.get("error"):
            out["error"] = (out["error"] or "") + p["error"]
        out["obligations"] += p["obligations"]
        out["function"] = out["function"] or p.get("function")
        out["trusted"] |= set(p["trusted"])
        out["inlined"] |= set(map(tuple, p["inlined"]))
        out["used_contracts"] |= set(map(tuple, p["used_contracts"]))
        out["paths"] += p.get("paths", 0)
        out["completed_paths"] += p.get("completed_paths", 0)
        if p.get("cross_check") is not None:
            out["cross_check"] = p["cross_check"]
    if out["completed_paths"] == 0 and not out["error"]:
        out["obligations"].append(dict(name=f"{_WORK['specs'][out['key']].get('prop')}/{_WORK['specs'][out['key']]['qualname']}/vacuity",
                                       status="undecided", property_level=False,
                                       reason="no feasible path reached the end of the function"))
    out["trusted"] = sorted(out["trusted"])
    out["inlined"] = sorted(out["inlined"])
    out["used_contracts"] = sorted(out["used_contracts"])
    return out


def run_property(prop, specs, tier="quick", seed=0, registry=None, extra_assumptions=(), bounded_standins=()):
    """specs: {key: spec}. Returns the dict expected by vlib.main.run_proofs."""
    registry = registry or {}
    for k, s in specs.items():
        s.setdefault("prop", prop)
        s["_seed"] = seed
        s["_tier"] = tier
        # thorough tier: undecided obligations get a longer second look (serial retry with 6x instead of 3x the budget, unless
        # the contract opted out of retries) and the native cross-check draws 25 times the samples (time-capped)
        s["_retry_factor"] = 6 if tier == "thorough" else 3
    _WORK["specs"], _WORK["registry"] = specs, registry  # inherited by fork (specs may hold lambdas)
    from .contracts import configurations

    items = []
    total_cfgs = sum(len(list(configurations(s))) for s in specs.values())
    for k, s in specs.items():
        if total_cfgs < 8:
            s.setdefault("solve_jobs", max(1, 16 // max(1, total_cfgs)))  # few configurations: parallelise the VCs instead
        ncfg = len(list(configurations(s)))
        items += [(k, ci) for ci in range(ncfg)] + [(k, "cross-check")]
    nproc = max(1, min(int(os.environ.get("VERIF_JOBS", "16")), len(items)))
    if nproc > 1 and not os.environ.get("VERIF_SERIAL"):
        from concurrent.futures import ProcessPoolExecutor

        with ProcessPoolExecutor(nproc, mp_context=mp.get_context("fork")) as ex:  # non-daemonic: may fork solvers
            parts = list(ex.map(_verify_one, items))
    else:
        parts = [_verify_one(it) for it in items]
    results = [_merge([p for p in parts if p["key"] == k]) for k in specs]
    obligations, functions, trusted, errors, assumptions = [], [], set(), [], list(GLOBAL_ASSUMPTIONS)
    selfcheck = dict(cross_check={}, paths={}, vacuity_ok=True)
    extra_cases = []
    for r in results:
        key = r["key"]
        if r.get("error"):
            errors.append(f"{key}: {r['error']}")
            continue
        spec = specs[key]
        if r.get("function"):
            f = dict(r["function"])
            f["contract"] = key
            f["inlined_callees"] = [f"{a}:{b}" for a, b in r["inlined"] if (a, b) != (f["file"], f["qualname"])]
            f["callee_contracts_used"] = [f"{a}:{b}" for a, b in r["used_contracts"]]
            functions.append(f)
        trusted |= set(r["trusted"])
        selfcheck["paths"][key] = r.get("paths", 0)
        for o in r["obligations"]:
            d = dict(name=o["name"], status=o["status"], backend=o.get("backend"), time_s=o.get("time_s", 0.0),
                     reason=o.get("reason"), property_level=o.get("property_level", True),
                     function=r.get("function"), model=o.get("model", ""), cfg=o.get("cfg"))
            if o["status"] == "refuted":
                mp_ = o.get("model_params")
                if isinstance(mp_, dict) and "_error" not in mp_:
                    d["witness_case"] = dict(_witness=True, spec=key, args=mp_, clause=o.get("clause"))
            obligations.append(d)
        cc = r.get("cross_check")
        if cc is not None:
            selfcheck["cross_check"][key] = dict(evaluated=cc.get("evaluated", 0), failures=len(cc.get("failures", [])),
                                                  skipped=cc.get("skipped"))
            for f in cc.get("failures", []):
                extra_cases.append(dict(_witness=True, spec=key, args=f["args"], clause=f["clause"], origin="cross-check"))
    # the assumed models of library functions are compared with the real libraries on concrete arguments
    try:
        from . import conformance

        conf = conformance.run(seed=seed)
        selfcheck["external_models_conformance"] = {k: dict(checked=v["checked"], failures=len(v["failures"])) for k, v in conf.items()}
        errors.extend(conformance.failures(conf))
    except Exception as e:  # noqa: BLE001
        errors.append(f"conformance self-check crashed: {type(e).__name__}: {e}")
    # vacuity: at least one obligation generated
    if not obligations:
        selfcheck["vacuity_ok"] = False
    # cross-check failures are fed to the native replay as if they were refutations
    for c in extra_cases:
        obligations.append(dict(name=f"{prop}/{specs[c['spec']]['qualname']}/{c['clause']}@cpython", status="refuted",
                                backend="cpython-cross-check", time_s=0.0, property_level=specs[c["spec"]].get("property_level", True) is not False,
                                function=None, model=str(c["args"])[:500], witness_case=c))
    return dict(obligations=obligations, functions=functions, trusted_base=sorted(trusted),
                assumptions=assumptions + list(extra_assumptions), selfcheck=selfcheck, errors=errors,
                bounded_standins=list(bounded_standins))


def native_replay(prop, specs, case):
    """Replay a witness natively; returns list of Res-like tuples."""
    from . import native

    spec = specs.get(case.get("spec"))
    if spec is None:
        return []
    out = []
    for cname, ok, detail in native.check(spec, case["args"]):
        if ok is None:
            continue  # does not satisfy requires natively: not a witness
        out.append((f"{prop}/{spec['qualname']}/{cname}", ok, f"native replay with {case['args']}: {detail}", True))
    return out
