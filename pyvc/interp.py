"""Path-wise symbolic executor over the AST of the real abTEM functions.

Exploration is by re-execution with a decision trail: `Ctx.branch` consults the recorded decisions, otherwise asks the
solver which sides are feasible and schedules the alternative prefix. `Ctx.merged` explores a pure sub-computation over
all its sub-paths and merges the results into if-then-else terms (used for comprehension elements, quantifier bodies).
"""

from __future__ import annotations

import ast
import importlib
import os
from fractions import Fraction

import z3

from . import extract
from .values import (ExternalFn, ModuleRef, Opaque, PathEnd, PyRaise, Sym, SymC, SymSeq, TypeRef, Unsupported,
                     concrete, is_scalar, kind_of, mk, norm_number, seq_of, to_int_z, to_real_z, v_abs, v_add, v_and,
                     v_cmp, v_floordiv, v_implies, v_ite, v_mod, v_mul, v_neg, v_not, v_or, v_pow, v_sub, v_truediv,
                     v_truth, z_of)

MAX_UNROLL = 4000


class _Return(Exception):
    def __init__(self, value):
        self.value = value


class _Break(Exception):
    pass


class _Continue(Exception):
    pass


def z_free_consts(z, acc=None, seen=None):
    if acc is None:
        acc, seen = set(), set()
    stack = [z]
    while stack:
        t = stack.pop()
        tid = t.get_id()
        if tid in seen:
            continue
        seen.add(tid)
        if z3.is_app(t):
            if t.num_args() == 0 and t.decl().kind() == z3.Z3_OP_UNINTERPRETED:
                acc.add(t.decl().name())
            stack.extend(t.children())
        elif z3.is_quantifier(t):
            stack.append(t.body())
    return acc


class Ctx:
    """One path of the exploration."""

    def __init__(self, prefix=(), feas_timeout_ms=400):
        self.decisions = list(prefix)
        self.pos = 0
        self.pc = []
        self.pending = []
        self.obligations = []
        self.counter = 0
        self.bound = []  # stack of [name, facts]
        self.nonneg = set()  # z3 ids of bound variables known to be >= 0 (quantifier ranges starting at a literal >= 0)
        self.ufs = {}
        self.feas_timeout_ms = feas_timeout_ms
        self.where = ["?"]
        self.implicit_on = True
        self.trusted = set()
        self.notes = []
        self.fact_cache = set()
        self.in_merged = 0
        self.axioms = []  # formulas valid on every path (input well-formedness, UF axiom instances)
        self.uf_fact_ids = set()  # ids of the axioms that are UF axiom instances (tried without them first)

    # -- naming --------------------------------------------------------------------------
    def fresh_name(self, base):
        self.counter += 1
        return f"{base}!{self.counter}"

    def fresh(self, base, kind="int"):
        n = self.fresh_name(base)
        if kind == "int":
            return Sym(z3.Int(n), "int")
        if kind == "real":
            return Sym(z3.Real(n), "real")
        if kind == "bool":
            return Sym(z3.Bool(n), "bool")
        if kind == "str":
            return Sym(z3.String(n), "str")
        raise Unsupported(f"fresh of kind {kind}")

    # -- assumptions / obligations ---------------------------------------------------------
    def assume(self, v):
        v = v_truth(v) if not isinstance(v, (bool, z3.ExprRef)) else v
        if isinstance(v, bool):
            if not v:
                raise PathEnd()
            return
        z = v.z if isinstance(v, Sym) else v
        self.pc.append(z)

    def fact(self, z):
        """A formula valid in the intended model (UF axiom instance). Scoped to bound variables if it mentions them."""
        key = z.get_id()
        if key in self.fact_cache:
            return
        if self.bound:
            names = z_free_consts(z)
            for lvl in range(len(self.bound) - 1, -1, -1):
                if self.bound[lvl][0] in names:
                    self.bound[lvl][1].append(z)
                    return
        self.fact_cache.add(key)
        self.axioms.append(z)
        self.uf_fact_ids.add(key)

    def global_axiom(self, z):
        key = z.get_id()
        if key in self.fact_cache:
            return
        self.fact_cache.add(key)
        self.axioms.append(z)

    def oblige(self, name, goal, meta=None):
        g = v_truth(goal) if not isinstance(goal, z3.ExprRef) else goal
        if isinstance(g, bool):
            gz = z3.BoolVal(g)
        else:
            gz = g.z if isinstance(g, Sym) else g
        if self.bound:
            # an obligation raised under bound variables: must hold for all values of them in scope
            raise Unsupported(f"obligation {name} under a bound variable")
        self.obligations.append(dict(name=name, goal=gz, pc=list(self.axioms) + list(self.pc), meta=meta or {},
                                     uf_fact_ids=set(self.uf_fact_ids)))

    def oblige_implicit(self, kind, goal_z):
        if not self.implicit_on:
            return
        if self.bound:
            return  # definedness inside quantifier bodies / lazy elements is covered where they are forced
        g = z3.simplify(goal_z) if isinstance(goal_z, z3.ExprRef) else z3.BoolVal(bool(goal_z))
        if z3.is_true(g):
            return
        self.obligations.append(dict(name=f"{self.where[-1]}/safe/{kind}", goal=g, pc=list(self.axioms) + list(self.pc),
                                     meta={"implicit": True}))

    # -- branching -----------------------------------------------------------------------
    def feasible(self, extra, timeout_ms=None):
        s = z3.Solver()
        s.set("timeout", timeout_ms or self.feas_timeout_ms)
        for a in self.axioms:
            s.add(a)
        for a in self.pc:
            s.add(a)
        for a in extra:
            s.add(a)
        return s.check() != z3.unsat

    def branch(self, cond):
        cond = v_truth(cond)
        if isinstance(cond, bool):
            return cond
        c = cond.z
        if self.bound:
            names = z_free_consts(c)
            if any(b[0] in names for b in self.bound):
                # decision depends on a bound variable: only legal inside merged()
                pass
        if self.pos < len(self.decisions):
            d = self.decisions[self.pos]
        elif self.in_merged:
            # inside a merged (pure) evaluation both sides are explored without asking the solver; a side that
            # raises is checked for feasibility lazily in merged()
            d = True
            self.pending.append(self.decisions[: self.pos] + [False])
            self.decisions.append(d)
        else:
            can_t = self.feasible([c])
            can_f = self.feasible([z3.Not(c)])
            if can_t and can_f:
                d = True
                self.pending.append(self.decisions[: self.pos] + [False])
            elif can_t:
                d = True
            elif can_f:
                d = False
            else:
                raise PathEnd()
            self.decisions.append(d)
        self.pos += 1
        self.pc.append(c if d else z3.Not(c))
        return d

    def nondet(self, n, label=""):
        """Explore n alternatives (used for loop-invariant checking)."""
        # encode as a sequence of binary decisions without path conditions
        choice = 0
        while choice < n - 1:
            if self.pos < len(self.decisions):
                d = self.decisions[self.pos]
            else:
                d = True
                self.pending.append(self.decisions[: self.pos] + [False])
                self.decisions.append(d)
            self.pos += 1
            if d:
                return choice
            choice += 1
        return choice

    def merged(self, thunk):
        """Run a pure computation over all its sub-paths and merge the results."""
        saved = (self.decisions, self.pos, self.pending)
        base = len(self.pc)
        results = []
        work = [[]]
        guard = 0
        try:
            while work:
                guard += 1
                if guard > 256:
                    raise Unsupported("too many sub-paths in merged evaluation")
                prefix = work.pop()
                self.decisions, self.pos, self.pending = list(prefix), 0, []
                del self.pc[base:]
                self.in_merged += 1
                try:
                    val = thunk()
                    conds = list(self.pc[base:])
                    results.append((conds, val))
                except PathEnd:
                    pass
                except Unsupported:
                    if self.feasible([], 1500):
                        raise
                except PyRaise as e:
                    if self.feasible([], 1500):
                        if len(self.pc) > base:
                            if getattr(self, "raise_as_false", False):
                                # spec expression: where it cannot be evaluated it does not hold
                                results.append((list(self.pc[base:]), False))
                            else:
                                raise Unsupported(f"exception {e.exc_type} raised conditionally inside a merged (expression-level) evaluation")
                        else:
                            raise
                finally:
                    self.in_merged -= 1
                work.extend(self.pending)
        finally:
            del self.pc[base:]
            self.decisions, self.pos, self.pending = saved
        if not results:
            raise PathEnd()
        val = results[-1][1]
        for conds, v in reversed(results[:-1]):
            c = mk(z3.And(*conds)) if conds else True
            val = v_ite(c, v, val)
        return val

    # -- bound variables -----------------------------------------------------------------
    def push_bound(self, base="i"):
        v = self.fresh(base, "int")
        self.bound.append([v.z.decl().name(), []])
        return v

    def pop_bound(self):
        return self.bound.pop()[1]

    # -- uninterpreted functions with ground axiom instances --------------------------------
    def uf(self, name, arity, out="real"):
        key = (name, arity, out)
        if key not in self.ufs:
            sorts = [z3.RealSort()] * arity + [z3.RealSort() if out == "real" else z3.IntSort()]
            self.ufs[key] = z3.Function("uf_" + name, *sorts)
        return self.ufs[key]

    def uf_apply(self, name, args):
        self.trusted.add(f"uninterpreted function {name} with the axiom instances listed in pyvc/interp.py:Ctx.uf_apply")
        if all(concrete(a) for a in args):
            cv = _concrete_uf(name, [norm_number(a) for a in args])
            if cv is not None:
                return cv
        # canonical sum-of-monomials form: polynomially equal arguments become the same term (congruence for free)
        zs = [z3.simplify(to_real_z(a), som=True) for a in args]
        if name == "sqrt":
            a0 = z3.simplify(zs[0])
            if (z3.is_rational_value(a0) or z3.is_algebraic_value(a0)) and getattr(self, "algebraic_sqrt", False):
                # exact algebraic number arithmetic of z3 (no uninterpreted function needed)
                nonneg = z3.simplify(a0 >= 0)
                if z3.is_true(nonneg):
                    return mk(z3.Sqrt(a0))
        f = self.uf(name, len(args))
        t = f(*zs)
        r = Sym(t, "real")
        if name in ("sqrt", "exp"):
            # strictly increasing: instantiate pairwise with earlier applications
            seen = self.__dict__.setdefault("_mono_" + name, [])
            for (a0, t0) in seen:
                if a0.get_id() != zs[0].get_id():
                    self.fact(z3.And(z3.Implies(a0 < zs[0], t0 < t), z3.Implies(zs[0] < a0, t < t0),
                                     z3.Implies(a0 == zs[0], t0 == t)))
            seen.append((zs[0], t))
        if name == "sqrt":
            self.fact(t >= 0)
            self.fact(z3.Implies(zs[0] >= 0, t * t == zs[0]))
        elif name in ("cos", "sin"):
            c, s = self.uf("cos", 1)(zs[0]), self.uf("sin", 1)(zs[0])
            self.fact(c * c + s * s == 1)
            self.fact(z3.And(c >= -1, c <= 1, s >= -1, s <= 1))
            if not os.environ.get("PYVC_NO_ZERO_FACT"):
                self.fact(z3.Implies(zs[0] == 0, z3.And(c == 1, s == 0)))
        elif name == "exp":
            self.fact(t > 0)
            self.fact((zs[0] <= 0) == (t <= 1))
            self.fact((zs[0] == 0) == (t == 1))
        elif name == "tan":
            pass
        elif name == "arctan2":
            # r = sqrt(y^2+x^2) > 0  =>  r cos(t) = x, r sin(t) = y
            y, x = zs
            r2 = z3.simplify(y * y + x * x, som=True)
            rr = self.uf("sqrt", 1)(r2)
            self.fact(rr >= 0)
            self.fact(rr * rr == r2)
            c, s = self.uf("cos", 1)(t), self.uf("sin", 1)(t)
            self.fact(c * c + s * s == 1)
            self.fact(rr * c == x)
            self.fact(rr * s == y)
        return r

    def uf_sqrt(self, x):
        return self.uf_apply("sqrt", [x])


def _concrete_uf(name, args):
    if name == "sqrt":
        a = Fraction(args[0])
        if a >= 0:
            import math

            n, d = a.numerator, a.denominator
            rn, rd = math.isqrt(n), math.isqrt(d)
            if rn * rn == n and rd * rd == d:
                return Fraction(rn, rd)
        return None
    if name in ("cos",) and args[0] == 0:
        return 1
    if name in ("sin", "tan") and args[0] == 0:
        return 0
    if name == "exp" and args[0] == 0:
        return 1
    return None


# ------------------------------------------------------------------------------------------
# runtime objects of the interpreted program


class SymObj:
    def __init__(self, cls, fields=None):
        self.cls = cls
        self.fields = dict(fields or {})

    def __repr__(self):
        return f"SymObj<{self.cls.name}>"


class BoundMethod:
    def __init__(self, obj, fi):
        self.obj = obj
        self.fi = fi


class ClosureFn:
    def __init__(self, node, frame):
        self.node = node
        self.frame = frame
        self.name = getattr(node, "name", "<lambda>")


class BuiltinMethod:
    def __init__(self, obj, name):
        self.obj = obj
        self.name = name


class ExcValue:
    def __init__(self, exc_type, msg=""):
        self.exc_type = exc_type
        self.msg = msg


class SliceVal:
    def __init__(self, lo, hi, step):
        self.lo, self.hi, self.step = lo, hi, step


class MutList:
    """A list that may have a symbolic suffix is not supported; MutList wraps a python list for identity semantics."""


class Frame:
    def __init__(self, module, func=None, parent=None, spec=None):
        self.vars = {}
        self.module = module
        self.func = func
        self.parent = parent
        self.spec = spec
        self.loop_ordinal = 0
        self.yields = None
        self.sum_ordinal = 0

    def lookup(self, name):
        f = self
        while f is not None:
            if name in f.vars:
                return True, f.vars[name]
            f = f.parent
        return False, None


_EXC_NAMES = {"ValueError", "RuntimeError", "TypeError", "KeyError", "IndexError", "NotImplementedError",
              "AttributeError", "AssertionError", "ZeroDivisionError", "StopIteration", "Exception",
              "GridUndefinedError", "EnergyUndefinedError"}

_TYPE_NAMES = {"int": (int,), "float": (float,), "bool": (bool,), "str": (str,), "tuple": (tuple,), "list": (list,),
               "dict": (dict,), "complex": (complex,), "set": (set,), "object": (object,), "Number": (int, float),
               "type": (type,), "bytes": (bytes,), "slice": (slice,)}


class Interp:
    def __init__(self, ctx: Ctx, contracts=None, externals=None, options=None):
        self.ctx = ctx
        self.contracts = contracts or {}
        from . import externals as ext

        self.ext = ext
        self.options = options or {}
        self.depth = 0
        from . import values as _values

        _values.CURRENT_CTX[0] = ctx
        ctx.algebraic_sqrt = bool(self.options.get("algebraic_sqrt"))  # exact algebraic numbers only where a spec asks for them
        self.called = set()  # (relpath, qualname) of abTEM functions entered (inlined)
        self.used_contracts = set()

    # ================================================================================ calls
    def call_funcinfo(self, fi, args, kwargs, self_obj=None, spec=None):
        if getattr(fi, "jitted", False):
            raise Unsupported(f"{fi.qualname} is @jit-compiled (Numba semantics are not Python semantics)")
        key = (fi.module.relpath, fi.qualname + (".setter" if fi.kind == "setter" else ""))
        if spec is None and key in self.contracts and self.contracts[key].get("modular", False) and self.depth > 0:
            return self.apply_contract(fi, self.contracts[key], args, kwargs, self_obj)
        if spec is None and self.depth > 0 and fi.name in (self.options.get("merge_calls") or ()) and not self.ctx.in_merged:
            return self.ctx.merged(lambda: self.call_funcinfo(fi, args, kwargs, self_obj, spec=self.contracts.get(key) or {}))
        self.called.add(key)
        frame = Frame(fi.module, fi, None, spec or self.contracts.get(key))
        node = fi.node
        a = node.args
        params = [p.arg for p in a.posonlyargs + a.args]
        allargs = list(args)
        if fi.cls is not None and fi.kind in ("method", "property", "setter"):
            allargs = [self_obj] + allargs
        elif fi.kind == "classmethod":
            allargs = [fi.cls] + allargs
        if len(allargs) > len(params) and a.vararg is None:
            raise PyRaise("TypeError", f"too many positional arguments for {fi.qualname}")
        for x in list(allargs) + list(kwargs.values()):
            if isinstance(x, SymSeq) and getattr(x, "fresh_array", False):
                x.fresh_array = False  # the array escapes into a callee: A-FRESH-ARRAY no longer applies to it
        bound = dict(zip(params, allargs))
        if a.vararg is not None:
            bound[a.vararg.arg] = tuple(allargs[len(params):])
        defaults = a.defaults
        dstart = len(params) - len(defaults)
        for k, v in kwargs.items():
            if k in bound:
                raise PyRaise("TypeError", f"multiple values for {k}")
            if k not in params and k not in [p.arg for p in a.kwonlyargs]:
                if a.kwarg is None:
                    raise PyRaise("TypeError", f"unexpected keyword {k} for {fi.qualname}")
                bound.setdefault(a.kwarg.arg, {})[k] = v
            else:
                bound[k] = v
        if a.kwarg is not None:
            bound.setdefault(a.kwarg.arg, {})
        mframe = Frame(fi.module)
        for i, p in enumerate(params):
            if p not in bound:
                if i >= dstart:
                    bound[p] = self.eval(defaults[i - dstart], mframe)
                else:
                    raise PyRaise("TypeError", f"missing argument {p} for {fi.qualname}")
        for p, d in zip(a.kwonlyargs, a.kw_defaults):
            if p.arg not in bound:
                if d is None:
                    raise PyRaise("TypeError", f"missing kw-only argument {p.arg}")
                bound[p.arg] = self.eval(d, mframe)
        frame.vars.update(bound)
        gen = fi.is_generator()
        if gen:
            frame.yields = []
        self.depth += 1
        self.ctx.where.append(fi.qualname)
        try:
            if self.depth > 40:
                raise Unsupported("call depth > 40")
            try:
                self.exec_block(node.body, frame)
                ret = None
            except _Return as r:
                ret = r.value
        finally:
            self.depth -= 1
            self.ctx.where.pop()
        if gen:
            return self._finish_generator(frame)
        return ret

    def _finish_generator(self, frame):
        segs = frame.yields
        if all(not isinstance(s, SymSeq) for s in segs):
            return list(segs)
        out = None
        buf = []
        for s in segs:
            if isinstance(s, SymSeq):
                if buf:
                    out = self.seq_concat(out, seq_of(tuple(buf))) if out is not None else seq_of(tuple(buf))
                    buf = []
                out = self.seq_concat(out, s) if out is not None else s
            else:
                buf.append(s)
        if buf:
            out = self.seq_concat(out, seq_of(tuple(buf)))
        return out

    def call_closure(self, cf, args, kwargs):
        node = cf.node
        frame = Frame(cf.frame.module, cf.frame.func, cf.frame, cf.frame.spec)
        a = node.args
        params = [p.arg for p in a.posonlyargs + a.args]
        if len(args) > len(params):
            raise PyRaise("TypeError", "too many args for closure")
        bound = dict(zip(params, args))
        bound.update(kwargs)
        dstart = len(params) - len(a.defaults)
        for i, p in enumerate(params):
            if p not in bound:
                if i >= dstart:
                    bound[p] = self.eval(a.defaults[i - dstart], cf.frame)
                else:
                    raise PyRaise("TypeError", f"missing argument {p}")
        frame.vars.update(bound)
        if isinstance(node, ast.Lambda):
            return self.eval(node.body, frame)
        self.depth += 1
        try:
            try:
                self.exec_block(node.body, frame)
                return None
            except _Return as r:
                return r.value
        finally:
            self.depth -= 1

    def call(self, f, args, kwargs):
        if isinstance(f, extract.FuncInfo):
            return self.call_funcinfo(f, args, kwargs)
        if isinstance(f, BoundMethod):
            return self.call_funcinfo(f.fi, args, kwargs, self_obj=f.obj)
        if isinstance(f, ClosureFn):
            return self.call_closure(f, args, kwargs)
        if isinstance(f, ExternalFn):
            return f.fn(self, args, kwargs)
        if isinstance(f, self.ext.OpaqueFn):
            return self.ext.call_opaque_fn(self, f, args, kwargs)
        if isinstance(f, BuiltinMethod):
            return self.ext.call_builtin_method(self, f.obj, f.name, args, kwargs)
        if isinstance(f, TypeRef):
            return self.ext.call_type(self, f, args, kwargs)
        if isinstance(f, extract.ClassInfo):
            return self.construct(f, args, kwargs)
        raise Unsupported(f"call of {f!r}")

    def construct(self, cls, args, kwargs):
        if cls.name in _EXC_NAMES or cls.is_subclass_of("Exception"):
            return ExcValue(cls.name, "")
        obj = SymObj(cls)
        init = cls.lookup("methods", "__init__")
        if init is not None:
            self.call_funcinfo(init, args, kwargs, self_obj=obj)
        else:
            # dataclass-style: class attrs with defaults
            raise Unsupported(f"construction of {cls.name} without __init__")
        return obj

    def apply_contract(self, fi, spec, args, kwargs, self_obj):
        from .contracts import apply_contract_at_call

        return apply_contract_at_call(self, fi, spec, args, kwargs, self_obj)

    # ================================================================================ statements
    def exec_block(self, stmts, frame):
        for st in stmts:
            self.exec_stmt(st, frame)

    def exec_stmt(self, st, frame):
        m = getattr(self, "st_" + type(st).__name__, None)
        if m is None:
            raise Unsupported(f"statement {type(st).__name__} at {frame.module.relpath}:{st.lineno}")
        return m(st, frame)

    def st_Pass(self, st, frame):
        pass

    def st_Expr(self, st, frame):
        if isinstance(st.value, ast.Constant):
            return  # docstring
        if isinstance(st.value, (ast.Yield,)):
            v = self.eval(st.value.value, frame) if st.value.value is not None else None
            self._do_yield(frame, v)
            return
        self.eval(st.value, frame)

    def _do_yield(self, frame, v):
        f = frame
        while f is not None and f.yields is None:
            f = f.parent
        if f is None:
            raise Unsupported("yield outside generator frame")
        f.yields.append(v)

    def st_Return(self, st, frame):
        raise _Return(self.eval(st.value, frame) if st.value is not None else None)

    def st_Assign(self, st, frame):
        v = self.eval(st.value, frame)
        for t in st.targets:
            self.assign(t, v, frame)

    def st_AnnAssign(self, st, frame):
        if st.value is not None:
            self.assign(st.target, self.eval(st.value, frame), frame)

    def st_AugAssign(self, st, frame):
        cur = self.eval(_load(st.target), frame)
        v = self.eval(st.value, frame)
        if isinstance(cur, list) and isinstance(st.op, ast.Add):
            cur.extend(self.iter_concrete(v))
            return
        self.assign(st.target, self.binop(st.op, cur, v), frame)

    def assign(self, target, v, frame):
        if isinstance(target, ast.Name):
            if isinstance(v, SymSeq) and getattr(v, "fresh_array", False) \
                    and any(o is v for k, o in frame.vars.items() if k != target.id):
                v.fresh_array = False  # a second name for the same array: stores through either name are no longer modelled
            frame.vars[target.id] = v
        elif isinstance(target, (ast.Tuple, ast.List)):
            items = self.iter_concrete(v)
            if any(isinstance(e, ast.Starred) for e in target.elts):
                raise Unsupported("starred assignment")
            if len(items) != len(target.elts):
                raise PyRaise("ValueError", "unpack length mismatch")
            for t, x in zip(target.elts, items):
                self.assign(t, x, frame)
        elif isinstance(target, ast.Attribute):
            obj = self.eval(target.value, frame)
            self.set_attr(obj, target.attr, v)
        elif isinstance(target, ast.Subscript):
            obj = self.eval(target.value, frame)
            idx = self.eval_index(target.slice, frame)
            if self.options.get("pointwise") and isinstance(obj, (Sym, SymC, int, Fraction)) and isinstance(target.value, ast.Name):
                # a[mask] = v  /  a[(0, 0)] = v  on an array modelled by one arbitrary element
                frame.vars[target.value.id] = v_ite(self.pointwise_selector(idx), v, obj)
                return
            if isinstance(obj, SymSeq) and getattr(obj, "fresh_array", False) and isinstance(target.value, ast.Name):
                # store into a 1-D array that this function created itself (np.zeros / np.ones) and that has not escaped:
                # functional update, the local name is rebound (A-FRESH-ARRAY: no alias of the array exists yet)
                frame.vars[target.value.id] = self.updated_array(obj, idx, v)
                return
            self.set_item(obj, idx, v)
        else:
            raise Unsupported(f"assignment target {type(target).__name__}")

    def updated_array(self, obj, idx, v):
        if isinstance(v, (SymSeq, tuple, list)):
            raise Unsupported("array-valued store into a fresh array")
        n = obj.length
        zn = to_int_z(n)
        old_get = obj.getter
        if isinstance(idx, SliceVal):
            if idx.step is not None and idx.step != 1:
                raise Unsupported("slice step in store")

            def normb(b, default):
                if b is None:
                    return default
                zb = to_int_z(b)
                return mk(z3.If(zb < 0, z3.If(zb + zn < 0, 0, zb + zn), z3.If(zb > zn, zn, zb)))

            lo, hi = normb(idx.lo, 0), normb(idx.hi, n)

            def getter(i, _lo=lo, _hi=hi):
                return v_ite(v_and(v_cmp("LtE", _lo, i), v_cmp("Lt", i, _hi)), v, old_get(i))
        else:
            if isinstance(idx, (tuple, list, SymSeq)) or (isinstance(idx, Sym) and idx.kind != "int"):
                raise Unsupported("store index into a fresh array")
            zi = to_int_z(idx)
            self.ctx.oblige_implicit("store-index-in-range", z3.And(zi >= -zn, zi < zn))
            pos = mk(z3.If(zi < 0, zi + zn, zi))

            def getter(i, _pos=pos):
                return v_ite(v_cmp("Eq", i, _pos), v, old_get(i))
        r = SymSeq(n, getter, "updated")
        r.fresh_array = True
        return r

    def pointwise_selector(self, idx):
        """Truth value of `this element is selected by idx` (boolean mask element, or the zero-frequency pixel)."""
        if isinstance(idx, Sym) and idx.kind == "bool":
            return idx
        if isinstance(idx, bool):
            return idx
        items = idx if isinstance(idx, tuple) else (idx,)
        ok = all((isinstance(i, SliceVal) and i.lo is None and i.hi is None) or (isinstance(i, int) and not isinstance(i, bool) and i == 0)
                 for i in items)
        if ok and any(isinstance(i, int) for i in items):
            self.ctx.trusted.add("A-POINTWISE: index (0, ..., 0) selects the zero-frequency pixel, modelled by the boolean `origin()`")
            return Sym(z3.Bool("is_origin"), "bool")
        raise Unsupported("element-selecting subscript store in pointwise mode")

    def set_attr(self, obj, name, v):
        if isinstance(obj, SymObj):
            setter = obj.cls.lookup("setters", name)
            if setter is not None:
                self.call_funcinfo(setter, [v], {}, self_obj=obj)
                return
            if obj.cls.lookup("properties", name) is not None:
                raise PyRaise("AttributeError", f"can't set attribute {name}")
            obj.fields[name] = v
            return
        raise Unsupported(f"attribute store on {type(obj).__name__}")

    def set_item(self, obj, idx, v):
        if isinstance(obj, list):
            if isinstance(idx, Sym):
                raise Unsupported("store at symbolic index into python list")
            if isinstance(idx, SliceVal):
                raise Unsupported("slice store")
            obj[idx] = v
            return
        if isinstance(obj, dict):
            if not concrete(idx):
                raise Unsupported("symbolic dict key")
            obj[idx] = v
            return
        raise Unsupported(f"item store on {type(obj).__name__}")

    def st_If(self, st, frame):
        c = self.eval(st.test, frame)
        if self.ctx.branch(c):
            self.exec_block(st.body, frame)
        else:
            self.exec_block(st.orelse, frame)

    def st_Assert(self, st, frame):
        # `assert isinstance(x, T)` / `assert x is not None`: type narrowing -> must hold as well (obligation)
        c = self.eval(st.test, frame)
        c = v_truth(c)
        name = f"{self.ctx.where[-1]}/assert@{_src(st.test)[:60]}"
        if isinstance(c, bool):
            if not c:
                self.ctx.oblige(name, False, {"assert": True, "line": st.lineno})
                raise PyRaise("AssertionError", _src(st.test))
            return
        self.ctx.oblige(name, c, {"assert": True, "line": st.lineno})
        self.ctx.assume(c)

    def st_Raise(self, st, frame):
        if st.exc is None:
            raise Unsupported("bare raise")
        e = st.exc
        name = None
        if isinstance(e, ast.Call):
            e = e.func
        if isinstance(e, ast.Name):
            name = e.id
        elif isinstance(e, ast.Attribute):
            name = e.attr
        if name is None:
            raise Unsupported("raise of computed exception")
        raise PyRaise(name, _src(st.exc)[:120])

    def st_FunctionDef(self, st, frame):
        frame.vars[st.name] = ClosureFn(st, frame)

    def st_Import(self, st, frame):
        for a in st.names:
            frame.vars[a.asname or a.name.split(".")[0]] = ModuleRef(a.name if a.asname else a.name.split(".")[0])

    def st_ImportFrom(self, st, frame):
        for a in st.names:
            frame.vars[a.asname or a.name] = self.resolve_from_import(st.module or "", a.name, frame.module)

    def st_Break(self, st, frame):
        raise _Break()

    def st_Continue(self, st, frame):
        raise _Continue()

    def st_Try(self, st, frame):
        if st.finalbody or st.orelse:
            raise Unsupported("try/finally or try/else")
        handled = []
        for h in st.handlers:
            if h.type is None:
                handled.append(None)
            elif isinstance(h.type, ast.Name):
                handled.append((h.type.id,))
            elif isinstance(h.type, ast.Tuple):
                handled.append(tuple(e.id for e in h.type.elts if isinstance(e, ast.Name)))
            else:
                raise Unsupported("except clause form")
        try:
            self.exec_block(st.body, frame)
        except PyRaise as e:
            for h, names in zip(st.handlers, handled):
                if names is None or e.exc_type in names or "Exception" in names:
                    if h.name:
                        frame.vars[h.name] = ExcValue(e.exc_type, e.msg)
                    self.exec_block(h.body, frame)
                    return
            raise

    def st_With(self, st, frame):
        raise Unsupported("with statement")

    def st_Delete(self, st, frame):
        for t in st.targets:
            if isinstance(t, ast.Subscript):
                obj = self.eval(t.value, frame)
                idx = self.eval_index(t.slice, frame)
                if isinstance(obj, (list, dict)) and concrete(idx) and not isinstance(idx, SliceVal):
                    del obj[idx]
                    continue
            elif isinstance(t, ast.Name) and t.id in frame.vars:
                del frame.vars[t.id]
                continue
            raise Unsupported("del statement of this form")

    def st_Global(self, st, frame):
        raise Unsupported("global statement")

    def st_While(self, st, frame):
        ordinal = frame.loop_ordinal
        frame.loop_ordinal += 1
        n = 0
        while True:
            c = v_truth(self.eval(st.test, frame))
            if not isinstance(c, bool):
                from .loops import exec_while_symbolic

                return exec_while_symbolic(self, st, frame, ordinal)
            if not c:
                break
            n += 1
            if n > MAX_UNROLL:
                raise Unsupported("while loop unrolled too far")
            try:
                self.exec_block(st.body, frame)
            except _Break:
                return
            except _Continue:
                continue
        self.exec_block(st.orelse, frame)

    def st_For(self, st, frame):
        ordinal = frame.loop_ordinal
        frame.loop_ordinal += 1
        it = self.eval(st.iter, frame)
        if isinstance(it, SymSeq) and not isinstance(it.length, int):
            from .loops import exec_for_symbolic

            return exec_for_symbolic(self, st, frame, it, ordinal)
        items = self.iter_concrete(it)
        if len(items) > MAX_UNROLL:
            raise Unsupported("for loop too long to unroll")
        for x in items:
            self.assign(st.target, x, frame)
            try:
                self.exec_block(st.body, frame)
            except _Break:
                return
            except _Continue:
                continue
        self.exec_block(st.orelse, frame)

    # ================================================================================ expressions
    def eval(self, e, frame):
        m = getattr(self, "ex_" + type(e).__name__, None)
        if m is None:
            raise Unsupported(f"expression {type(e).__name__} at {frame.module.relpath}:{getattr(e, 'lineno', '?')}")
        return m(e, frame)

    def ex_Constant(self, e, frame):
        v = e.value
        if isinstance(v, float):
            return norm_number(v)
        if isinstance(v, complex):
            return SymC(norm_number(v.real), norm_number(v.imag))
        return v

    def ex_Name(self, e, frame):
        found, v = frame.lookup(e.id)
        if found:
            return v
        return self.resolve_global(e.id, frame.module)

    def resolve_global(self, name, module):
        f = module.functions.get(name)
        if f is not None:
            ov = self.ext.external(f"{module.dotted}.{name}")
            return ov if ov is not None else f
        c = module.classes.get(name)
        if c is not None:
            return c
        if name in module.imports:
            imp = module.imports[name]
            if imp[0] == "module":
                try:
                    importlib.import_module(imp[1])
                except Exception:  # noqa: BLE001
                    # optional dependency (`try: import cupy as cp / except: cp = None`): use the live module's value
                    try:
                        live = getattr(importlib.import_module(module.dotted), name)
                        if live is None:
                            return None
                    except Exception:  # noqa: BLE001
                        pass
                return ModuleRef(imp[1])
            return self.resolve_from_import(imp[1], imp[2], module)
        if name in module.globals_ast:
            return self.live_global(module, name)
        b = self.ext.builtin(name)
        if b is not None:
            return b
        if name in _TYPE_NAMES:
            return TypeRef(name, _TYPE_NAMES[name])
        if name in _EXC_NAMES:
            return TypeRef(name, ())
        raise Unsupported(f"unresolved name {name} in {module.relpath}")

    def resolve_from_import(self, mod, name, module):
        ext_override = self.ext.external(f"{mod}.{name}")
        if ext_override is not None:
            return ext_override
        if mod.startswith("abtem"):
            m = extract.module_for_dotted(mod)
            if m is not None:
                if name in m.imports and name not in m.functions and name not in m.classes:
                    # optional dependencies (`try: import cupy as cp / except: cp = None`): trust the live module
                    try:
                        if getattr(importlib.import_module(mod), name, 0) is None:
                            return None
                    except Exception:  # noqa: BLE001
                        pass
                if name in m.functions:
                    return m.functions[name]
                if name in m.classes:
                    return m.classes[name]
                if name in m.globals_ast:
                    return self.live_global(m, name)
                sub = extract.module_for_dotted(mod + "." + name)
                if sub is not None:
                    return ModuleRef(mod + "." + name)
                if name in m.imports:
                    imp = m.imports[name]
                    if imp[0] == "module":
                        return ModuleRef(imp[1])
                    if (imp[1], imp[2]) != (mod, name):
                        return self.resolve_from_import(imp[1], imp[2], m)
            sub = extract.module_for_dotted(mod + "." + name)
            if sub is not None:
                return ModuleRef(mod + "." + name)
            raise Unsupported(f"cannot resolve {name} from {mod}")
        full = f"{mod}.{name}"
        ext = self.ext.external(full)
        if ext is not None:
            return ext
        if name in _TYPE_NAMES:
            return TypeRef(name, _TYPE_NAMES[name])
        if mod in ("typing", "numbers", "collections.abc", "types") or full in ("numpy.ndarray",):
            return TypeRef(name, ())
        try:
            live = importlib.import_module(full)
            return ModuleRef(full)
        except Exception:  # noqa: BLE001
            pass
        try:
            live = getattr(importlib.import_module(mod), name)
            return self.from_live(live, full)
        except Unsupported:
            raise
        except Exception as ex:  # noqa: BLE001
            raise Unsupported(f"cannot resolve {full}: {ex}")

    def live_global(self, module, name):
        try:
            live = getattr(importlib.import_module(module.dotted), name)
        except Exception as ex:  # noqa: BLE001
            raise Unsupported(f"cannot read live global {module.dotted}.{name}: {ex}")
        return self.from_live(live, f"{module.dotted}.{name}")

    def from_live(self, v, what=""):
        import types

        if v is None or isinstance(v, (bool, int, str)):
            return v
        if isinstance(v, float):
            return norm_number(v)
        if isinstance(v, tuple):
            return tuple(self.from_live(x, what) for x in v)
        if isinstance(v, list):
            return [self.from_live(x, what) for x in v]
        if isinstance(v, dict):
            return {k: self.from_live(x, what) for k, x in v.items()}
        if isinstance(v, types.ModuleType):
            return ModuleRef(v.__name__)
        try:
            import numpy as np

            if isinstance(v, np.generic):
                return norm_number(v)
        except ImportError:
            pass
        if isinstance(v, type):
            return TypeRef(v.__name__, (v,))
        if type(v).__module__ in ("typing", "types"):
            return TypeRef(str(v), ())
        raise Unsupported(f"live value {what} of type {type(v).__name__}")

    def ex_Attribute(self, e, frame):
        obj = self.eval(e.value, frame)
        return self.get_attr(obj, e.attr)

    def get_attr(self, obj, name):
        if isinstance(obj, ModuleRef):
            full = f"{obj.dotted}.{name}"
            if full in ("numpy.pi", "math.pi"):
                return self.ext.pi_value(self)
            ext0 = self.ext.external(full)
            if ext0 is not None:
                return ext0
            if obj.dotted.startswith("abtem"):
                m = extract.module_for_dotted(obj.dotted)
                if m is not None:
                    return self.resolve_from_import(obj.dotted, name, m)
            ext = self.ext.external(full)
            if ext is not None:
                return ext
            try:
                live = getattr(importlib.import_module(obj.dotted), name)
            except Exception as ex:  # noqa: BLE001
                raise Unsupported(f"cannot resolve {full}: {ex}")
            return self.from_live(live, full)
        if isinstance(obj, SymObj):
            if name in obj.fields:
                return obj.fields[name]
            p = obj.cls.lookup("properties", name)
            if p is not None:
                return self.call_funcinfo(p, [], {}, self_obj=obj)
            mth = obj.cls.lookup("methods", name)
            if mth is not None:
                if mth.kind == "staticmethod":
                    return mth
                return BoundMethod(obj, mth)
            ca = obj.cls.lookup("class_attrs", name)
            if ca is not None:
                return self.eval(ca, Frame(obj.cls.module))
            if name == "__class__":
                return obj.cls
            raise PyRaise("AttributeError", f"{obj.cls.name}.{name}")
        if isinstance(obj, extract.ClassInfo):
            mth = obj.lookup("methods", name)
            if mth is not None:
                return mth
            ca = obj.lookup("class_attrs", name)
            if ca is not None:
                return self.eval(ca, Frame(obj.module))
            if name == "__name__":
                return obj.name
            raise PyRaise("AttributeError", f"{obj.name}.{name}")
        if isinstance(obj, self.ext.PRow):
            if name == "shape":
                return (Sym(z3.Int("nrows"), "int"),) * obj.lead + (len(obj.values),)
            if name in ("all", "any", "sum"):
                def reduce_rows(I, args, kw, _o=obj, _n=name):
                    ax = kw.get("axis", args[0] if args else None)
                    if ax not in (1, -1) or _o.lead != 1:
                        raise Unsupported(f"row-array .{_n} along axis {ax}")
                    vals = list(_o.values)
                    if _n == "sum":
                        r = vals[0]
                        for v in vals[1:]:
                            r = v_add(r, v)
                        return r
                    r = v_truth(vals[0])
                    for v in vals[1:]:
                        r = v_and(r, v_truth(v)) if _n == "all" else v_or(r, v_truth(v))
                    return r

                return ExternalFn("PRow." + name, reduce_rows)
            raise Unsupported(f"attribute {name} of a row-array")
        if isinstance(obj, self.ext.Arr):
            if name == "astype":
                def astype(I, args, kw, _a=obj):
                    t = args[0] if args else kw.get("dtype")
                    if t is int or getattr(t, "name", None) in ("int", "int64", "int32"):
                        # truncation toward zero, element by element (numpy semantics of float -> int)
                        return I.ext.Arr(I.ext.to_int(I, x) for x in _a.items)
                    if t is float or getattr(t, "name", None) in ("float", "float64", "float32"):
                        return I.ext.Arr(I.ext.to_float(I, x) for x in _a.items)
                    raise Unsupported("astype to an unmodelled dtype")

                return ExternalFn("Arr.astype", astype)
            if name == "shape":
                return (len(obj.items),)
            if name == "ndim":
                return 1
            raise Unsupported(f"attribute {name} of Arr")
        if isinstance(obj, Opaque):
            return self.ext.opaque_attr(self, obj, name)
        if isinstance(obj, SymC):
            if name == "real":
                return obj.re
            if name == "imag":
                return obj.im
        if isinstance(obj, (Sym, int, Fraction)) and name in ("real",):
            return obj
        if isinstance(obj, (Sym, SymC, int, Fraction)) and self.options.get("pointwise"):
            if name == "shape":
                return (Sym(z3.Int("shape0"), "int"), Sym(z3.Int("shape1"), "int"))
            if name == "imag" and not isinstance(obj, SymC):
                return 0
            if name == "ndim":
                return 2
            if name == "dtype":
                return TypeRef("dtype")
        if isinstance(obj, (list, tuple, dict, str, SymSeq, Sym, int, Fraction, SliceVal)):
            if isinstance(obj, SliceVal) and name in ("start", "stop", "step"):
                return {"start": obj.lo, "stop": obj.hi, "step": obj.step}[name]
            return BuiltinMethod(obj, name)
        raise Unsupported(f"attribute {name} of {type(obj).__name__}")

    def ex_BinOp(self, e, frame):
        return self.binop(e.op, self.eval(e.left, frame), self.eval(e.right, frame))

    def binop(self, op, a, b):
        ctx = self.ctx
        PRow = self.ext.PRow
        if isinstance(a, PRow) or isinstance(b, PRow):
            # (N, d) array seen at an arbitrary row: element-wise on the d entries, scalars broadcast
            if isinstance(a, PRow) and isinstance(b, PRow):
                if len(a.values) != len(b.values):
                    raise Unsupported("row-arrays of different width")
                return PRow([self.binop(op, x, y) for x, y in zip(a.values, b.values)], a.lead)
            if isinstance(a, PRow):
                return PRow([self.binop(op, x, b) for x in a.values], a.lead)
            return PRow([self.binop(op, a, y) for y in b.values], b.lead)
        if isinstance(a, self.ext.Arr) or isinstance(b, self.ext.Arr):
            return self.ext.arr_binop(self, lambda x, y: self.binop(op, x, y), a, b)
        if isinstance(op, ast.Add):
            if isinstance(a, (tuple, list, SymSeq)) and isinstance(b, (tuple, list, SymSeq)):
                if isinstance(a, SymSeq) or isinstance(b, SymSeq):
                    return self.seq_concat(seq_of(a), seq_of(b))
                if type(a) is not type(b):
                    raise PyRaise("TypeError", "concatenate list and tuple")
                return a + b
            if isinstance(a, str) and isinstance(b, str):
                return a + b
            return v_add(a, b)
        if isinstance(op, ast.Sub):
            return v_sub(a, b)
        if isinstance(op, ast.Mult):
            if isinstance(a, (tuple, list)) and (isinstance(b, (int, Sym))):
                return self.seq_repeat(a, b)
            if isinstance(b, (tuple, list)) and (isinstance(a, (int, Sym))):
                return self.seq_repeat(b, a)
            return v_mul(a, b)
        if isinstance(op, ast.Div):
            return v_truediv(a, b, ctx)
        if isinstance(op, ast.FloorDiv):
            return v_floordiv(a, b, ctx)
        if isinstance(op, ast.Mod):
            if isinstance(a, str):
                raise Unsupported("string formatting")
            return v_mod(a, b, ctx)
        if isinstance(op, ast.Pow):
            return v_pow(a, b, ctx)
        if isinstance(op, (ast.BitAnd, ast.BitOr)):
            if kind_of(a) == "bool" and kind_of(b) == "bool":
                return v_and(a, b) if isinstance(op, ast.BitAnd) else v_or(a, b)
        raise Unsupported(f"binary operator {type(op).__name__}")

    def seq_repeat(self, items, n):
        if isinstance(n, bool):
            n = int(n)
        if isinstance(n, int):
            return items * n
        items_t = tuple(items)
        ln = len(items_t)
        base = seq_of(items_t)
        cnt = mk(z3.If(n.z > 0, n.z, 0))
        length = v_mul(cnt, ln)
        if ln == 1:
            x0 = items_t[0]
            ps = (lambda k: v_mul(k, x0)) if kind_of(x0) in ("int", "real") else None
            return SymSeq(length, lambda i: x0, "repeat", psum=ps)
        return SymSeq(length, lambda i: base.get(v_mod(i, ln)), "repeat")

    def seq_concat(self, a, b):
        a, b = seq_of(a), seq_of(b)
        la, lb = a.length, b.length
        if isinstance(la, int) and la == 0:
            return b
        if isinstance(lb, int) and lb == 0:
            return a

        def getter(i):
            c = v_cmp("Lt", i, la)
            if isinstance(c, bool):
                return a.get(i) if c else b.get(v_sub(i, la))
            return self.ctx.merged(lambda: a.get(i) if self.ctx.branch(c) else b.get(v_sub(i, la)))

        ps = None
        if a.psum is not None and b.psum is not None:
            def ps(k):
                c = v_cmp("LtE", k, la)
                return v_ite(c, a.psum(k), v_add(a.psum(la), b.psum(v_sub(k, la))))
        return SymSeq(v_add(la, lb), getter, "concat", psum=ps)

    def ex_UnaryOp(self, e, frame):
        v = self.eval(e.operand, frame)
        if isinstance(e.op, ast.Not):
            return v_not(v)
        if isinstance(e.op, ast.USub):
            return v_neg(v)
        if isinstance(e.op, ast.UAdd):
            return v
        if isinstance(e.op, ast.Invert) and kind_of(v) == "bool":
            return v_not(v)
        raise Unsupported(f"unary operator {type(e.op).__name__}")

    def ex_BoolOp(self, e, frame):
        # short-circuit semantics; value semantics (returns operand) only for concrete operands
        is_and = isinstance(e.op, ast.And)
        vals = e.values

        def rec(i):
            v = self.eval(vals[i], frame)
            if i == len(vals) - 1:
                return v
            t = v_truth(v)
            if isinstance(t, bool):
                if is_and:
                    return rec(i + 1) if t else v
                return v if t else rec(i + 1)
            # symbolic: fork so that the right operand is only evaluated when Python would evaluate it
            if self.ctx.branch(t):
                return rec(i + 1) if is_and else True
            return False if is_and else rec(i + 1)

        return rec(0)

    def ex_Compare(self, e, frame):
        left = self.eval(e.left, frame)
        result = True
        for op, rexpr in zip(e.ops, e.comparators):
            right = self.eval(rexpr, frame)
            r = self.compare(op, left, right)
            if isinstance(r, self.ext.PRow):
                if len(e.ops) != 1:
                    raise Unsupported("chained comparison of row-arrays")
                return r
            result = v_and(result, r)
            if result is False:
                return False
            left = right
        return result

    def compare(self, op, a, b):
        name = type(op).__name__
        PRow = self.ext.PRow
        if (isinstance(a, PRow) or isinstance(b, PRow)) and name in ("Eq", "NotEq", "Lt", "LtE", "Gt", "GtE"):
            if isinstance(a, PRow) and isinstance(b, PRow):
                return PRow([v_cmp(name, x, y) for x, y in zip(a.values, b.values)], a.lead)
            if isinstance(a, PRow):
                return PRow([v_cmp(name, x, b) for x in a.values], a.lead)
            return PRow([v_cmp(name, a, y) for y in b.values], b.lead)
        if name in ("In", "NotIn"):
            r = self.contains(b, a)
            return r if name == "In" else v_not(r)
        return v_cmp(name, a, b)

    def contains(self, container, x):
        if isinstance(container, dict):
            if concrete(x):
                return x in container
            r = False
            for k in container:
                r = v_or(r, v_cmp("Eq", x, k))
            return r
        if isinstance(container, (tuple, list)):
            r = False
            for k in container:
                r = v_or(r, v_cmp("Eq", x, k))
            return r
        if isinstance(container, str) and isinstance(x, str):
            return x in container
        if isinstance(container, SymSeq):
            i = self.ctx.push_bound("j")
            try:
                body = self.ctx.merged(lambda: v_cmp("Eq", container.get(i), x))
            finally:
                facts = self.ctx.pop_bound()
            rng = z3.And(i.z >= 0, i.z < to_int_z(container.length), *facts)
            return mk(z3.Exists([i.z], z3.And(rng, z_of(v_truth(body)))))
        raise Unsupported(f"membership test in {type(container).__name__}")

    def ex_IfExp(self, e, frame):
        c = v_truth(self.eval(e.test, frame))
        if isinstance(c, bool):
            return self.eval(e.body if c else e.orelse, frame)
        # merge instead of forking when both arms are pure expressions
        return self.ctx.merged(lambda: self.eval(e.body, frame) if self.ctx.branch(c) else self.eval(e.orelse, frame))

    def ex_Tuple(self, e, frame):
        out = []
        for x in e.elts:
            if isinstance(x, ast.Starred):
                out.extend(self.iter_concrete(self.eval(x.value, frame)))
            else:
                out.append(self.eval(x, frame))
        return tuple(out)

    def ex_List(self, e, frame):
        return list(self.ex_Tuple(e, frame))

    def ex_Dict(self, e, frame):
        d = {}
        for k, v in zip(e.keys, e.values):
            if k is None:
                d.update(self.eval(v, frame))
            else:
                kk = self.eval(k, frame)
                if not concrete(kk):
                    raise Unsupported("symbolic dict key")
                d[kk] = self.eval(v, frame)
        return d

    def ex_Set(self, e, frame):
        vals = [self.eval(x, frame) for x in e.elts]
        if all(concrete(v) for v in vals):
            return tuple(dict.fromkeys(vals))
        raise Unsupported("set with symbolic elements")

    def ex_JoinedStr(self, e, frame):
        return "<fstring>"

    def ex_Lambda(self, e, frame):
        return ClosureFn(e, frame)

    def ex_Slice(self, e, frame):
        return SliceVal(self.eval(e.lower, frame) if e.lower else None, self.eval(e.upper, frame) if e.upper else None,
                        self.eval(e.step, frame) if e.step else None)

    def eval_index(self, e, frame):
        return self.eval(e, frame)

    def ex_Subscript(self, e, frame):
        obj = self.eval(e.value, frame)
        idx = self.eval_index(e.slice, frame)
        return self.get_item(obj, idx)

    def get_item(self, obj, idx):
        if isinstance(obj, TypeRef):
            return obj
        if isinstance(obj, self.ext.PRow):
            return obj.getitem(idx)
        if isinstance(obj, self.ext.Arr):
            r = self.get_item(obj.items, idx)
            return self.ext.Arr(r) if isinstance(r, tuple) else r
        if isinstance(obj, dict):
            if concrete(idx):
                if idx not in obj:
                    fac = getattr(obj, "factory", None)
                    if fac is not None:
                        obj[idx] = self.call(fac, [], {})
                        return obj[idx]
                    raise PyRaise("KeyError", repr(idx))
                return obj[idx]
            # symbolic key over a finite dict: case split
            keys = list(obj)
            for k in keys:
                if self.ctx.branch(v_cmp("Eq", idx, k)):
                    return obj[k]
            raise PyRaise("KeyError", "symbolic key not in dict")
        if isinstance(obj, (tuple, list, str)):
            if isinstance(idx, SliceVal):
                return self.slice_seq(obj, idx)
            if isinstance(idx, bool):
                idx = int(idx)
            if isinstance(idx, int):
                if idx >= len(obj) or idx < -len(obj):
                    raise PyRaise("IndexError", f"index {idx} out of range")
                return obj[idx]
            if isinstance(idx, Sym):
                n = len(obj)
                self.ctx.oblige_implicit("index-in-range", z3.And(idx.z >= -n, idx.z < n))
                i2 = mk(z3.If(idx.z < 0, idx.z + n, idx.z))
                return self.ctx.merged(lambda: self._pick(obj, i2))
            raise Unsupported(f"index of type {type(idx).__name__}")
        if isinstance(obj, SymSeq):
            if isinstance(idx, SliceVal):
                return self.slice_seq(obj, idx)
            n = obj.length
            if isinstance(idx, int) and isinstance(n, int):
                if idx >= n or idx < -n:
                    raise PyRaise("IndexError", "index out of range")
                return obj.get(idx if idx >= 0 else idx + n)
            zi, zn = to_int_z(idx), to_int_z(n)
            self.ctx.oblige_implicit("index-in-range", z3.And(zi >= -zn, zi < zn))
            if isinstance(idx, int):
                return obj.get(idx if idx >= 0 else v_add(n, idx))
            neg = mk(zi < 0)
            if neg is False or zi.get_id() in self.ctx.nonneg:
                return obj.get(idx)
            return obj.get(mk(z3.If(zi < 0, zi + zn, zi)))
        if isinstance(obj, Opaque):
            return self.ext.opaque_getitem(self, obj, idx)
        if isinstance(obj, (Sym, SymC, Fraction)) and self.options.get("pointwise"):
            return self.ext.pointwise_getitem(self, obj, idx)
        raise Unsupported(f"subscript of {type(obj).__name__}")

    def _pick(self, items, i):
        if not items:
            raise PyRaise("IndexError", "index into empty sequence")
        for k in range(len(items) - 1):
            if self.ctx.branch(v_cmp("Eq", i, k)):
                return items[k]
        return items[len(items) - 1]

    def slice_seq(self, obj, sl):
        if sl.step is not None and sl.step != 1:
            if concrete(sl.step) and isinstance(obj, (tuple, list, str)) and all(x is None or isinstance(x, int) for x in (sl.lo, sl.hi)):
                return obj[slice(sl.lo, sl.hi, sl.step)]
            raise Unsupported("slice step")
        if isinstance(obj, (tuple, list, str)) and all(x is None or isinstance(x, int) for x in (sl.lo, sl.hi)):
            return obj[slice(sl.lo, sl.hi)]
        s = seq_of(obj)
        n = s.length
        zn = to_int_z(n)

        def normb(b, default):
            if b is None:
                return default
            zb = to_int_z(b)
            return mk(z3.If(zb < 0, z3.If(zb + zn < 0, 0, zb + zn), z3.If(zb > zn, zn, zb)))

        lo = normb(sl.lo, 0)
        hi = normb(sl.hi, n)
        zl, zh = to_int_z(lo), to_int_z(hi)
        length = mk(z3.If(zh > zl, zh - zl, 0))
        ps = None
        if s.psum is not None:
            def ps(k):
                return v_sub(s.psum(v_add(lo, k)), s.psum(lo))
        return SymSeq(length, lambda i: s.get(v_add(lo, i)), "slice", psum=ps)

    def ex_Call(self, e, frame):
        f = self.eval(e.func, frame)
        args = []
        for a in e.args:
            if isinstance(a, ast.Starred):
                args.extend(self.iter_concrete(self.eval(a.value, frame)))
            else:
                args.append(self.eval(a, frame))
        kwargs = {}
        for k in e.keywords:
            if k.arg is None:
                d = self.eval(k.value, frame)
                if not isinstance(d, dict):
                    raise Unsupported("** of non-dict")
                kwargs.update(d)
            else:
                kwargs[k.arg] = self.eval(k.value, frame)
        if isinstance(f, ExternalFn) and getattr(f.fn, "wants_frame", False):
            return f.fn(self, args, kwargs, frame=frame, node=e)
        return self.call(f, args, kwargs)

    # -- comprehensions -----------------------------------------------------------------
    def ex_GeneratorExp(self, e, frame):
        return self.comprehension(e, frame)

    def ex_ListComp(self, e, frame):
        r = self.comprehension(e, frame)
        return list(r) if isinstance(r, tuple) else r

    def ex_DictComp(self, e, frame):
        if len(e.generators) != 1:
            raise Unsupported("nested dict comprehension")
        g = e.generators[0]
        items = self.iter_concrete(self.eval(g.iter, frame))
        out = {}
        for x in items:
            f2 = Frame(frame.module, frame.func, frame, frame.spec)
            self.assign(g.target, x, f2)
            if all(self._concrete_true(self.eval(c, f2)) for c in g.ifs):
                k = self.eval(e.key, f2)
                if not concrete(k):
                    raise Unsupported("symbolic dict key")
                out[k] = self.eval(e.value, f2)
        return out

    def _concrete_true(self, v):
        t = v_truth(v)
        if not isinstance(t, bool):
            raise Unsupported("symbolic filter in comprehension")
        return t

    def comprehension(self, e, frame):
        gens = e.generators
        if any(g.is_async for g in gens):
            raise Unsupported("async comprehension")
        first = gens[0]
        it = self.eval(first.iter, frame)
        symbolic = isinstance(it, SymSeq) and not isinstance(it.length, int)
        if not symbolic:
            out = []

            def rec(gi, fr):
                if gi == len(gens):
                    out.append(self.eval(e.elt, fr))
                    return
                g = gens[gi]
                items = self.iter_concrete(self.eval(g.iter, fr) if gi else it)
                for x in items:
                    f2 = Frame(fr.module, fr.func, fr, fr.spec)
                    self.assign(g.target, x, f2)
                    ok = True
                    for c in g.ifs:
                        t = v_truth(self.eval(c, f2))
                        if not isinstance(t, bool):
                            raise Unsupported("symbolic filter in comprehension over a concrete sequence")
                        if not t:
                            ok = False
                            break
                    if ok:
                        rec(gi + 1, f2)

            rec(0, frame)
            return tuple(out)
        if len(gens) != 1 or first.ifs:
            raise Unsupported("nested/filtered comprehension over a symbolic sequence")
        snap = Frame(frame.module, frame.func, None, frame.spec)
        f = frame
        chain = []
        while f is not None:
            chain.append(f)
            f = f.parent
        for f in reversed(chain):
            snap.vars.update(f.vars)
        target = first.target
        elt = e.elt
        interp = self

        def getter(i):
            def thunk():
                f2 = Frame(snap.module, snap.func, snap, snap.spec)
                interp.assign(target, it.get(i), f2)
                return interp.eval(elt, f2)

            return interp.ctx.merged(thunk)

        return SymSeq(it.length, getter, "comp")

    # -- iteration helpers --------------------------------------------------------------
    def iter_concrete(self, v):
        if isinstance(v, (tuple, list)):
            return list(v)
        if isinstance(v, dict):
            return list(v.keys())
        if isinstance(v, str):
            return list(v)
        if isinstance(v, range):
            return list(v)
        if isinstance(v, SymSeq):
            if isinstance(v.length, int):
                return [v.get(i) for i in range(v.length)]
            raise Unsupported("iteration over a sequence of symbolic length needs a loop invariant / comprehension")
        raise Unsupported(f"iteration over {type(v).__name__}")


def _load(target):
    t = ast.parse(ast.unparse(target), mode="eval").body
    return t


def _src(node):
    try:
        return ast.unparse(node)
    except Exception:  # noqa: BLE001
        return "?"
