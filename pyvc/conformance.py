"""Self-check run by every proof run: the *assumed* models of library functions (pyvc/externals.py) are evaluated on
concrete arguments and compared with the real library. A mismatch means an assumed contract is wrong, so nothing proved
through it can be believed: it is reported as a checker error (exit 3), never as a violation."""

from __future__ import annotations

import itertools
import math
import random
from fractions import Fraction

import numpy as np


def _close(a, b, tol=1e-9):
    if isinstance(a, (tuple, list)) or isinstance(b, (tuple, list, np.ndarray)):
        a, b = list(a), list(b)
        return len(a) == len(b) and all(_close(x, y, tol) for x, y in zip(a, b))
    if isinstance(a, bool) or isinstance(b, (bool, np.bool_)):
        return bool(a) == bool(b)
    return math.isclose(float(a), float(b), rel_tol=tol, abs_tol=tol)


def run(seed=0, n=40):
    from . import externals as E
    from .interp import Ctx, Interp

    rng = random.Random(seed)
    I = Interp(Ctx(), contracts={}, externals=None, options={})

    def model(name, *args, **kw):
        fn = E._EXTERNALS.get(name) or E._BUILTINS.get(name)
        f = getattr(fn, "fn", fn)
        return f(I, list(args), kw)

    def fr(x):
        return Fraction(x).limit_denominator(10 ** 6)

    checks = {}

    def record(name, ok, what):
        c = checks.setdefault(name, dict(checked=0, failures=[]))
        c["checked"] += 1
        if not ok and len(c["failures"]) < 3:
            c["failures"].append(what)

    for _ in range(n):
        a, b = fr(rng.uniform(-20, 20)), fr(rng.uniform(-20, 20))
        num = rng.randint(1, 9)
        ep = rng.random() < 0.5
        got = model("numpy.linspace", a, b, num, endpoint=ep)
        record("numpy.linspace", _close(got, np.linspace(float(a), float(b), num, endpoint=ep)), f"linspace({a},{b},{num},endpoint={ep}) -> {got}")
        x = fr(rng.choice([rng.uniform(-9, 9), rng.randint(-9, 9), rng.randint(-9, 9) + 0.5]))
        record("numpy.ceil", _close(model("numpy.ceil", x), np.ceil(float(x))), f"ceil({x})")
        record("numpy.floor", _close(model("numpy.floor", x), np.floor(float(x))), f"floor({x})")
        record("numpy.round", _close(model("numpy.round", x), np.round(float(x))), f"round({x})")
        record("round", _close(model("round", x), round(float(x))), f"builtin round({x})")
        record("numpy.sign", _close(model("numpy.sign", x), np.sign(float(x))), f"sign({x})")
        record("numpy.abs", _close(model("numpy.abs", x), abs(float(x))), f"abs({x})")
        seq = tuple(fr(rng.uniform(-5, 5)) for _ in range(rng.randint(1, 6)))
        fl = [float(v) for v in seq]
        record("itertools.accumulate", _close(list(model("itertools.accumulate", seq)), list(itertools.accumulate(fl))), f"accumulate({seq})")
        record("max", _close(model("max", seq), max(fl)), f"max({seq})")
        record("min", _close(model("min", seq), min(fl)), f"min({seq})")
        record("numpy.prod", _close(model("numpy.prod", seq), np.prod(fl)), f"prod({seq})")
        lo, hi = sorted((fr(rng.uniform(-3, 3)), fr(rng.uniform(-3, 3))))
        record("numpy.clip", _close(model("numpy.clip", x, lo, hi), np.clip(float(x), float(lo), float(hi))), f"clip({x},{lo},{hi})")
        record("numpy.maximum", _close(model("numpy.maximum", a, b), np.maximum(float(a), float(b))), f"maximum({a},{b})")
        record("numpy.minimum", _close(model("numpy.minimum", a, b), np.minimum(float(a), float(b))), f"minimum({a},{b})")
        k = rng.randint(0, 6)
        record("numpy.zeros", _close(list(_items(model("numpy.zeros", k))), np.zeros(k)), f"zeros({k})")
        record("numpy.ones", _close(list(_items(model("numpy.ones", k))), np.ones(k)), f"ones({k})")
        record("numpy.fft.fftshift", _close(list(model("numpy.fft.fftshift", seq)), np.fft.fftshift(fl)), f"fftshift({seq})")
        record("numpy.fft.ifftshift", _close(list(model("numpy.fft.ifftshift", seq)), np.fft.ifftshift(fl)), f"ifftshift({seq})")
        i1, i2 = rng.randint(-9, 9), rng.choice([1, 2, 3, 5, -2, -3])
        from .values import v_floordiv, v_mod

        record("// and %", v_floordiv(i1, i2) == i1 // i2 and v_mod(i1, i2) == i1 % i2, f"{i1} // {i2}, {i1} % {i2}")
    return checks


def _items(v):
    from .values import SymSeq

    if isinstance(v, SymSeq):
        return [v.get(i) for i in range(int(v.length))]
    return list(v)


def failures(checks):
    return [f"assumed model of {k} disagrees with the library: {c['failures'][0]}" for k, c in checks.items() if c["failures"]]
