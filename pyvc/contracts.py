"""Sidecar contracts -> verification conditions -> solver verdicts.

A contract (dict) names a real function by file + qualified name, gives the sorts of its parameters, `requires`,
`ensures` (named clauses, Python expressions over parameters / `result` / spec helpers), `raises` (exception -> iff
condition) and optional lemmas / loop invariants. `verify(spec)` re-reads the source, explores all paths of the real
AST symbolically and discharges one VC per (path, clause).
"""

from __future__ import annotations

import ast
import itertools
import os
import time
import traceback

import z3

from . import extract, smt
from .interp import Ctx, Frame, Interp, SymObj
from .values import (ExternalFn, Opaque, PathEnd, PyRaise, Sym, SymSeq, Unsupported, concrete, kind_of, mk, seq_of,
                     to_int_z, v_add, v_and, v_cmp, v_implies, v_ite, v_not, v_or, v_sub, v_truth, z_of)

# ------------------------------------------------------------------------------------------
# sorts of parameters


class Sort:
    pass


class _Scalar(Sort):
    def __init__(self, kind):
        self.kind = kind

    def __repr__(self):
        return self.kind.capitalize()


Int, Real, Bool = _Scalar("int"), _Scalar("real"), _Scalar("bool")


class Str(Sort):
    """A symbolic string (compared with literals only)."""

    def __repr__(self):
        return "Str"


class Const(Sort):
    def __init__(self, value):
        self.value = value

    def __repr__(self):
        return f"Const({self.value!r})"


class Seq(Sort):
    def __init__(self, elem, pytype="tuple"):
        self.elem = elem
        self.pytype = pytype

    def __repr__(self):
        return f"Seq({self.elem!r})"


class Tup(Sort):
    def __init__(self, *elems, pytype="tuple"):
        self.elems = elems
        self.pytype = pytype

    def __repr__(self):
        return f"Tup{self.elems!r}"


class Alt(Sort):
    """Alternatives enumerated as separate configurations (None vs value, int vs tuple, literal strings...)."""

    def __init__(self, *alts):
        self.alts = [a if isinstance(a, Sort) else Const(a) for a in alts]

    def __repr__(self):
        return f"Alt{tuple(self.alts)!r}"


class Obj(Sort):
    """An instance of an abTEM class with the given field sorts (the class is looked up in `module`)."""

    def __init__(self, module, cls, fields):
        self.module, self.cls, self.fields = module, cls, fields

    def __repr__(self):
        return f"Obj({self.cls})"


class Dct(Sort):
    """A dict with fixed keys and values of the given sorts."""

    def __init__(self, fields):
        self.fields = fields

    def __repr__(self):
        return f"Dct({list(self.fields)})"


class Cplx(Sort):
    """A symbolic complex number (pointwise array element)."""

    def __repr__(self):
        return "Cplx"


class RowArr(Sort):
    """Pointwise view of an array (..., d) with symbolic entries along the last axis."""

    def __init__(self, *elems):
        self.elems = elems

    def __repr__(self):
        return f"RowArr{self.elems!r}"


class Opq(Sort):
    """Uninterpreted value (arrays, waves, ...) of a named abstract sort."""

    def __init__(self, tag):
        self.tag = tag

    def __repr__(self):
        return f"Opq({self.tag})"


def Opt(s):
    return Alt(Const(None), s)


def expand_alts(sort):
    """All Alt-free instances of a sort."""
    if isinstance(sort, Alt):
        out = []
        for a in sort.alts:
            out.extend(expand_alts(a))
        return out
    if isinstance(sort, Tup):
        return [Tup(*c, pytype=sort.pytype) for c in itertools.product(*[expand_alts(e) for e in sort.elems])]
    if isinstance(sort, Seq):
        return [Seq(e, sort.pytype) for e in expand_alts(sort.elem)]
    if isinstance(sort, Obj):
        keys = list(sort.fields)
        return [Obj(sort.module, sort.cls, dict(zip(keys, c)))
                for c in itertools.product(*[expand_alts(sort.fields[k]) for k in keys])]
    if isinstance(sort, Dct):
        keys = list(sort.fields)
        return [Dct(dict(zip(keys, c))) for c in itertools.product(*[expand_alts(sort.fields[k]) for k in keys])]
    return [sort]


_OPQ_SORTS = {}


def opq_sort(tag):
    if tag not in _OPQ_SORTS:
        _OPQ_SORTS[tag] = z3.DeclareSort(tag)
    return _OPQ_SORTS[tag]


_ZS = {"int": z3.IntSort, "real": z3.RealSort, "bool": z3.BoolSort}


def instantiate(ctx, sort, name, idx=()):
    """Build the symbolic value of an input of the given sort. idx: outer index terms for nested sequences."""
    if isinstance(sort, Const):
        return sort.value
    if isinstance(sort, _Scalar):
        if not idx:
            return Sym(z3.Const(name, _ZS[sort.kind]()), sort.kind)
        f = z3.Function(name, *([z3.IntSort()] * len(idx)), _ZS[sort.kind]())
        return Sym(f(*[to_int_z(i) for i in idx]), sort.kind)
    if isinstance(sort, Str):
        if idx:
            raise Unsupported("sequence of symbolic strings")
        return Sym(z3.String(name), "str")
    if isinstance(sort, Opq):
        s = opq_sort(sort.tag)
        if not idx:
            return Opaque(z3.Const(name, s), sort.tag)
        f = z3.Function(name, *([z3.IntSort()] * len(idx)), s)
        return Opaque(f(*[to_int_z(i) for i in idx]), sort.tag)
    if isinstance(sort, Tup):
        items = [instantiate(ctx, e, f"{name}.{k}", idx) for k, e in enumerate(sort.elems)]
        if sort.pytype == "ndarray":
            from .externals import Arr

            return Arr(items)  # a small 1-D ndarray: element-wise arithmetic
        return tuple(items) if sort.pytype == "tuple" else list(items)
    if isinstance(sort, Seq):
        nidx = len(idx)
        zidx = [to_int_z(i) for i in idx]
        if nidx:
            lenf = z3.Function(f"{name}.len", *([z3.IntSort()] * nidx), z3.IntSort())
            length = lenf(*zidx)
            bv = [z3.Int(f"{name}.q{j}") for j in range(nidx)]
            ctx.global_axiom(z3.ForAll(bv, lenf(*bv) >= 0, patterns=[lenf(*bv)]))
        else:
            length = z3.Int(f"{name}.len")
            ctx.global_axiom(length >= 0)
        psum = None
        if isinstance(sort.elem, _Scalar) and sort.elem.kind in ("int", "real"):
            es = _ZS[sort.elem.kind]()
            psf = z3.Function(f"{name}.psum", *([z3.IntSort()] * (nidx + 1)), es)
            elf = z3.Function(f"{name}.el", *([z3.IntSort()] * (nidx + 1)), es)
            bv = [z3.Int(f"{name}.p{j}") for j in range(nidx)]
            k = z3.Int(f"{name}.pk")
            zero = z3.IntVal(0) if sort.elem.kind == "int" else z3.RealVal(0)
            ax0 = psf(*bv, z3.IntVal(0)) == zero
            ctx.global_axiom(z3.ForAll(bv, ax0, patterns=[psf(*bv, z3.IntVal(0))]) if bv else ax0)
            ctx.global_axiom(z3.ForAll(bv + [k], z3.Implies(k >= 1, psf(*bv, k) == psf(*bv, k - 1) + elf(*bv, k - 1)),
                                       patterns=[psf(*bv, k)]))

            def psum(kk, _psf=psf, _z=zidx):
                return mk(_psf(*_z, to_int_z(kk)))

        def getter(i, _sort=sort, _name=name, _idx=idx):
            return instantiate(ctx, _sort.elem, f"{_name}.el", tuple(_idx) + (i,))

        s = SymSeq(mk(length), getter, name, psum=psum)
        s.pytype = sort.pytype
        return s
    if isinstance(sort, Dct):
        return {k: instantiate(ctx, fs, f"{name}[{k}]", idx) for k, fs in sort.fields.items()}
    if isinstance(sort, Cplx):
        from .values import SymC

        return SymC(Sym(z3.Real(f"{name}.re"), "real"), Sym(z3.Real(f"{name}.im"), "real"))
    if isinstance(sort, RowArr):
        from .externals import PRow

        return PRow([instantiate(ctx, e, f"{name}.{k}", idx) for k, e in enumerate(sort.elems)])
    if isinstance(sort, Obj):
        mod = extract.load_module(sort.module)
        cls = mod.classes.get(sort.cls)
        if cls is None:
            raise extract.ExtractError(f"class {sort.cls} not found in {sort.module}")
        return SymObj(cls, {k: instantiate(ctx, s, f"{name}.{k}", idx) for k, s in sort.fields.items()})
    raise Unsupported(f"cannot instantiate sort {sort!r}")


# ------------------------------------------------------------------------------------------
# spec helper functions available inside requires / ensures expressions


def _quant(I, fn, lo, hi, exists):
    ctx = I.ctx
    empty = v_cmp("GtE", lo, hi)
    if empty is True:
        return not exists
    i = ctx.push_bound("i")
    rng = z3.And(i.z >= to_int_z(lo), i.z < to_int_z(hi))
    if isinstance(lo, int) and not isinstance(lo, bool) and lo >= 0:
        ctx.nonneg.add(i.z.get_id())  # indexing with this variable needs no negative-index normalisation

    def thunk():
        ctx.pc.append(rng)
        return v_truth(I.call(fn, [i], {}))

    try:
        try:
            body = ctx.merged(thunk)
        except PathEnd:
            body = not exists
    finally:
        facts = ctx.pop_bound()
    zb = z_of(body) if not isinstance(body, bool) else z3.BoolVal(body)
    if exists:
        return mk(z3.Exists([i.z], z3.And(rng, *facts, zb)))
    return mk(z3.ForAll([i.z], z3.Implies(z3.And(rng, *facts), zb)))


def _spec_helpers():
    h = {}

    def reg(name):
        def deco(fn):
            h[name] = ExternalFn("spec." + name, fn)
            return fn

        return deco

    @reg("forall")
    def forall(I, args, kw):
        fn, lo, hi = args
        return _quant(I, fn, lo, hi, False)

    @reg("exists")
    def exists(I, args, kw):
        fn, lo, hi = args
        return _quant(I, fn, lo, hi, True)

    @reg("implies")
    def implies(I, args, kw):
        return v_implies(args[0], args[1])

    @reg("iff")
    def iff(I, args, kw):
        a, b = v_truth(args[0]), v_truth(args[1])
        return v_and(v_implies(a, b), v_implies(b, a))

    @reg("ite")
    def ite(I, args, kw):
        return v_ite(v_truth(args[0]), args[1], args[2])

    @reg("psum")
    def psum(I, args, kw):
        s, k = args
        if isinstance(s, SymSeq):
            if s.psum is None:
                raise Unsupported("psum of a sequence without prefix sums")
            return s.psum(k)
        items = list(s)
        if isinstance(k, int):
            r = 0
            for v in items[:k]:
                r = v_add(r, v)
            return r
        r, acc = 0, 0
        out = 0
        for j, v in enumerate(items):
            acc = v_add(acc, v)
            out = v_ite(v_cmp("GtE", k, j + 1), acc, out)
        return out

    @reg("ceil_div")
    def ceil_div(I, args, kw):
        a, b = args
        from .values import v_floordiv, v_neg

        return v_neg(v_floordiv(v_neg(a), b))

    @reg("is_none")
    def is_none(I, args, kw):
        return args[0] is None

    @reg("trig_add")
    def trig_add(I, args, kw):
        """Instance of the angle-addition theorems for cos/sin at (A, B): a valid formula, usable as an assumption."""
        from .values import to_real_z

        A, B = to_real_z(args[0]), to_real_z(args[1])
        c, s_ = I.ctx.uf("cos", 1), I.ctx.uf("sin", 1)
        I.ctx.trusted.add("trigonometric angle-addition identity instances (spec helper trig_add)")
        for t in (A, B, A + B):
            I.ctx.fact(c(t) * c(t) + s_(t) * s_(t) == 1)
        return mk(z3.And(c(A + B) == c(A) * c(B) - s_(A) * s_(B), s_(A + B) == s_(A) * c(B) + c(A) * s_(B)))

    @reg("observed")
    def observed(I, args, kw):
        """n-th recorded operation on an opaque array (dict with op / index / args)."""
        obs = getattr(I.ctx, "observations", [])
        n = args[0]
        want = args[1] if len(args) > 1 else None
        sel = [o for o in obs if want is None or o["op"] == want]
        if n >= len(sel):
            raise PyRaise("IndexError", f"only {len(sel)} observations")
        o = sel[n]
        return o.get("index") if o["op"] == "getitem" else {"args": tuple(o.get("args", ())), **o.get("kwargs", {})}

    @reg("num_observed")
    def num_observed(I, args, kw):
        obs = getattr(I.ctx, "observations", [])
        return len([o for o in obs if len(args) == 0 or o["op"] == args[0]])

    @reg("ufo")
    def ufo(I, args, kw):
        """Uninterpreted spec function with an opaque result: ufo(tag, name, *args). Arguments are flattened to scalars."""
        tag, name = args[0], args[1]
        flat = []

        def rec(v):
            if isinstance(v, (tuple, list)):
                for x in v:
                    rec(x)
            elif isinstance(v, Opaque):
                flat.append(v.z)
            elif v is None:
                flat.append(z3.StringVal("<None>"))
            else:
                flat.append(z_of(v))

        for a in args[2:]:
            rec(a)
        f = z3.Function(f"spec_{name}", *[x.sort() for x in flat], opq_sort(tag))
        return Opaque(f(*flat), tag)

    @reg("ufr")
    def ufr(I, args, kw):
        """Uninterpreted real-valued spec function ufr(name, *args): the same arguments give the same value (used to name
        the result of an assumed callee, e.g. the bounding box of a cell)."""
        name = args[0]
        flat = []

        def rec(v):
            if isinstance(v, (tuple, list)):
                for x in v:
                    rec(x)
            elif isinstance(v, Opaque):
                flat.append(v.z)
            elif v is None:
                flat.append(z3.StringVal("<None>"))
            else:
                flat.append(z_of(v))

        for a in args[1:]:
            rec(a)
        if not flat:
            return Sym(z3.Real(f"spec_{name}"), "real")
        f = z3.Function(f"spec_{name}", *[x.sort() for x in flat], z3.RealSort())
        return Sym(f(*flat), "real")

    @reg("row")
    def row(I, args, kw):
        from .externals import PRow

        return PRow(list(args))

    @reg("origin")
    def origin(I, args, kw):
        return Sym(z3.Bool("is_origin"), "bool")

    @reg("same_phase")
    def same_phase(I, args, kw):
        """Both values are complex exponentials exp(i a), exp(i b): a == b (sufficient for equality; goal position only)."""
        from .values import SymC, as_complex

        a, b = args
        if isinstance(a, SymC) and isinstance(b, SymC) and a.arg is not None and b.arg is not None:
            return v_cmp("Eq", a.arg, b.arg)
        a, b = as_complex(a), as_complex(b)
        return v_and(v_cmp("Eq", a.re, b.re), v_cmp("Eq", a.im, b.im))

    @reg("trig_cong")
    def trig_cong(I, args, kw):
        """Congruence instance: A == B implies cos A == cos B and sin A == sin B (valid)."""
        from .values import to_real_z

        A, B = to_real_z(args[0]), to_real_z(args[1])
        c, s_ = I.ctx.uf("cos", 1), I.ctx.uf("sin", 1)
        return mk(z3.Implies(A == B, z3.And(c(A) == c(B), s_(A) == s_(B))))

    @reg("trig_neg")
    def trig_neg(I, args, kw):
        from .values import to_real_z

        A = to_real_z(args[0])
        c, s_ = I.ctx.uf("cos", 1), I.ctx.uf("sin", 1)
        I.ctx.trusted.add("cos(-x) == cos(x), sin(-x) == -sin(x) instances (spec helper trig_neg)")
        return mk(z3.And(c(-A) == c(A), s_(-A) == -s_(A)))

    @reg("trig_pi")
    def trig_pi(I, args, kw):
        """cos/sin at 0, pi/2, pi."""
        from .externals import PI

        c, s_ = I.ctx.uf("cos", 1), I.ctx.uf("sin", 1)
        I.ctx.trusted.add("cos/sin at 0, pi/2 and pi (spec helper trig_pi)")
        return mk(z3.And(c(z3.RealVal(0)) == 1, s_(z3.RealVal(0)) == 0, c(PI / 2) == 0, s_(PI / 2) == 1, c(PI) == -1, s_(PI) == 0))

    @reg("real")
    def real(I, args, kw):
        from .externals import to_float

        return to_float(I, args[0])

    return h


SPEC_HELPERS = _spec_helpers()


def eval_spec(I, expr, env, module):
    """Evaluate a spec expression (string) to a truth value without forking the path."""
    node = ast.parse(expr.strip(), mode="eval").body
    fr = Frame(module)
    fr.vars.update(SPEC_HELPERS)
    fr.vars.update(env)
    old_impl = I.ctx.implicit_on
    I.ctx.implicit_on = False
    old_raf = getattr(I.ctx, "raise_as_false", False)
    I.ctx.raise_as_false = True
    try:
        return I.ctx.merged(lambda: I.eval(node, fr))
    finally:
        I.ctx.implicit_on = old_impl
        I.ctx.raise_as_false = old_raf


# ------------------------------------------------------------------------------------------


class VCtx(Ctx):
    pass


def _params_env(ctx, fi, cfg):
    env = {}
    for name, sort in cfg.items():
        env[name] = instantiate(ctx, sort, name)
    return env


def _bind_call(fi, env):
    a = fi.node.args
    names = [p.arg for p in a.posonlyargs + a.args + a.kwonlyargs]
    self_obj = None
    kwargs = {}
    if fi.cls is not None and fi.kind in ("method", "property", "setter") and names:
        self_obj = env.get(names[0])
        names = names[1:]
    for n in names:
        if n in env:
            kwargs[n] = env[n]
    if a.kwarg is not None:
        for k, v in env.items():
            if k not in names and k != "self" and not k.startswith("_ghost_"):
                pass
    return self_obj, kwargs


def configurations(spec):
    allp = {**spec["params"], **(spec.get("extra") or {})}
    names = list(allp)
    alts = [expand_alts(allp[n] if isinstance(allp[n], Sort) else Const(allp[n])) for n in names]
    for combo in itertools.product(*alts):
        yield dict(zip(names, combo))


def describe_cfg(cfg):
    return ", ".join(f"{k}:{v!r}" for k, v in cfg.items())


def snapshot(v):
    """Entry-state copy for old(): containers and objects are copied, scalars shared."""
    if isinstance(v, list):
        return [snapshot(x) for x in v]
    if isinstance(v, dict):
        return {k: snapshot(x) for k, x in v.items()}
    if isinstance(v, SymObj):
        return SymObj(v.cls, {k: snapshot(x) for k, x in v.fields.items()})
    return v


def verify(spec, registry=None, max_paths=400, only_clauses=None, only_cfg=None):
    """Generate and discharge all VCs of one contract. Returns dict(obligations=[...], function=..., notes...)."""
    t0 = time.time()
    prop = spec.get("prop", "?")
    base = f"{prop}/{spec['qualname']}"
    out = dict(obligations=[], function=None, trusted=set(), errors=[], paths=0, inlined=set(), used_contracts=set())
    try:
        mod = extract.load_module(spec["module"])
        fi = mod.function(spec["qualname"])
    except extract.ExtractError as e:
        out["obligations"].append(dict(name=f"{base}/extract", status="undecided", reason=str(e), property_level=False))
        return out
    out["function"] = fi.describe()
    vcs = []
    canary_paths = 0
    for ci, cfg in enumerate(configurations(spec)):
        if only_cfg is not None and ci != only_cfg:
            continue
        work = [[]]
        npaths = 0
        while work:
            prefix = work.pop()
            npaths += 1
            if npaths > max_paths:
                vcs.append(dict(name=f"{base}/path-budget@cfg{ci}", unsupported=f"more than {max_paths} paths"))
                break
            ctx = VCtx(prefix)
            I = Interp(ctx, registry or {}, options=spec.get("options"))
            tag = f"@cfg{ci}p{npaths}"
            env = {}
            try:
                env = _params_env(ctx, fi, cfg)
                ghost = {}
                deferred = []
                reqs = []
                for r in spec.get("requires", []):
                    if isinstance(r, tuple):  # (predicate over the configuration, expression)
                        if r[0](cfg):
                            reqs.append(r[1])
                    else:
                        reqs.append(r)
                for r in reqs:  # requires that do not need ghosts first (they may rule the cfg out)
                    try:
                        ctx.assume(eval_spec(I, r, env, mod))
                    except (Unsupported, PyRaise):
                        deferred.append(r)
                for gname, gexpr in (spec.get("ghost") or {}).items():
                    ghost[gname] = eval_spec(I, gexpr, {**env, **ghost}, mod)
                env_all = {**env, **ghost}
                for r in deferred:
                    ctx.assume(eval_spec(I, r, env_all, mod))
                for dk, dexpr in enumerate(spec.get("derived", [])):
                    # consequences of `requires` stated to help the solver: proved first, then assumed
                    dg = eval_spec(I, dexpr, env_all, mod)
                    ctx.oblige(f"{base}/derived[{dk}]", dg, {"lemma": True})
                    ctx.assume(dg)
                hints = []
                for h in spec.get("refute_hints", []):
                    try:
                        hz = v_truth(eval_spec(I, h, env_all, mod))
                        hints.append(z_of(hz) if not isinstance(hz, bool) else z3.BoolVal(hz))
                    except (Unsupported, PyRaise):
                        pass
                ctx.hints = hints
                if not ctx.feasible([]):
                    continue
                old = {k: snapshot(v) for k, v in env.items()}
                outcome = None
                self_obj, kwargs = _bind_call(fi, env)
                try:
                    if fi.kind == "setter":
                        vname = [p.arg for p in fi.node.args.args][1]
                        ret = I.call_funcinfo(fi, [env[vname]], {}, self_obj=self_obj, spec=spec)
                    else:
                        ret = I.call_funcinfo(fi, [], kwargs, self_obj=self_obj, spec=spec)
                    outcome = ("return", ret)
                except PyRaise as e:
                    outcome = ("raise", e.exc_type, e.msg)
                canary_paths += 1
                post_env = dict(env_all)
                post_env["old"] = old
                for k, v in old.items():
                    if "old_" + k not in post_env:
                        post_env["old_" + k] = v
                raises = spec.get("raises") or {}
                if outcome[0] == "return":
                    post_env["result"] = outcome[1]
                    for gname, gexpr in (spec.get("post_ghost") or {}).items():
                        post_env[gname] = eval_spec(I, gexpr, post_env, mod)
                    for av in spec.get("assume_valid", []):  # instances of valid identities (trig_add, ...)
                        if not any(av.strip().startswith(h) for h in ("trig_add(", "trig_neg(", "trig_pi(", "trig_cong(")):
                            raise Unsupported("assume_valid accepts only identity-instance helpers")
                        ctx.assume(eval_spec(I, av, post_env, mod))
                    for an in spec.get("assume_numeric", []):  # constant lemmas, checked numerically at run time
                        ctx.assume(eval_spec(I, an, post_env, mod))
                        ctx.trusted.add(f"ASSUMED constant lemma (checked numerically with mpmath at run time): {an}")
                    for lk, lexpr in enumerate(spec.get("pure_lemmas", [])):
                        # instances of facts of pure real arithmetic (e.g. cancellation x*m == K*m and m >= 1 -> x == K),
                        # stated over post-state terms: each is proved VALID on its own — from no hypotheses, with every
                        # non-arithmetic subterm (to_real of an integer term, function application) generalised to a fresh
                        # real — and only then assumed for the ensures clauses of this path
                        lz = z_of(v_truth(eval_spec(I, lexpr, post_env, mod)))
                        lr = smt.prove_pure_real(lz)
                        vcs.append(dict(name=f"{prop}/{base}/pure-lemma[{lk}]{tag}", cfg=describe_cfg(cfg),
                                        presolved=dict(status=lr["status"], backend=lr.get("backend"), time_s=lr.get("time_s", 0.0),
                                                       reason=lr.get("reason"))))
                        if lr["status"] == "discharged":
                            ctx.assume(lz)
                    for cname, cexpr in spec.get("ensures", []):
                        if only_clauses and cname not in only_clauses:
                            continue
                        try:
                            g = eval_spec(I, cexpr, post_env, mod)
                        except PyRaise as pe:
                            # the postcondition cannot even be evaluated on this path (missing key / attribute ...): it does not hold
                            ctx.oblige(f"{base}/{cname}", False, {"clause": cname, "kind": "ensures", "msg": f"postcondition raised {pe}"})
                            continue
                        except Unsupported as u:
                            vcs.append(dict(name=f"{base}/{cname}/unsupported{tag}", unsupported=str(u), cfg=describe_cfg(cfg)))
                            continue
                        ctx.oblige(f"{base}/{cname}", g, {"clause": cname, "kind": "ensures"})
                    for exc, cond in raises.items():
                        c = eval_spec(I, cond, post_env, mod)
                        ctx.oblige(f"{base}/raises-{exc}-if", v_not(c), {"clause": f"raises-{exc}-if", "kind": "raises"})
                else:
                    exc = outcome[1]
                    post_env["result"] = None
                    if exc in raises:
                        c = eval_spec(I, raises[exc], post_env, mod)
                        ctx.oblige(f"{base}/raises-{exc}-only-if", c, {"clause": f"raises-{exc}-only-if", "kind": "raises"})
                    elif exc in (spec.get("may_raise") or []):
                        pass
                    else:
                        ctx.oblige(f"{base}/no-unexpected-{exc}", False,
                                   {"clause": f"no-unexpected-{exc}", "kind": "raises", "msg": outcome[2]})
                    for cname, cexpr in spec.get("ensures_on_raise", []):
                        g = eval_spec(I, cexpr, post_env, mod)
                        ctx.oblige(f"{base}/{cname}", g, {"clause": cname, "kind": "ensures"})
            except PathEnd:
                pass
            except Unsupported as u:
                vcs.append(dict(name=f"{base}/unsupported{tag}", unsupported=str(u), cfg=describe_cfg(cfg)))
            except extract.ExtractError as u:
                vcs.append(dict(name=f"{base}/extract{tag}", unsupported=str(u), cfg=describe_cfg(cfg)))
            except RecursionError:
                vcs.append(dict(name=f"{base}/unsupported{tag}", unsupported="recursion limit", cfg=describe_cfg(cfg)))
            for ob in ctx.obligations:
                if not ob["name"].startswith(prop + "/"):
                    ob["name"] = f"{prop}/{ob['name']}"
                ob["name_path"] = ob["name"] + tag
                ob["cfg"] = describe_cfg(cfg)
                ob["env"] = env
                ob["hints"] = getattr(ctx, "hints", [])
                vcs.append(ob)
            out["trusted"] |= ctx.trusted
            out["inlined"] |= I.called
            out["used_contracts"] |= I.used_contracts
            work.extend(ctx.pending)
        out["paths"] += npaths
    # vacuity guard: some path must have been executed to the end
    out["completed_paths"] = canary_paths
    if canary_paths == 0 and only_cfg is None:
        out["obligations"].append(dict(name=f"{base}/vacuity", status="undecided", property_level=False,
                                       reason="no feasible path reached the end of the function (requires contradictory or everything unsupported)"))
    plevel = spec.get("property_level", True)
    _SOLVE["vcs"], _SOLVE["plevel"] = vcs, plevel
    _SOLVE["budget_ms"] = spec.get("z3_timeout_ms")
    _SOLVE["retries"] = not spec.get("no_retries", False)
    njobs = int(spec.get("solve_jobs", 1))
    if njobs > 1 and len(vcs) > 4:
        import multiprocessing as mp

        with mp.get_context("fork").Pool(min(njobs, len(vcs))) as pool:
            out["obligations"] += pool.map(_solve_vc, range(len(vcs)), chunksize=1)
    else:
        out["obligations"] += [_solve_vc(i) for i in range(len(vcs))]
    # verdicts must not flip because all cores were busy: undecided VCs get a second, serial attempt with a longer budget
    base_len = len(out["obligations"]) - len(vcs)
    open_ones = [i for i in range(len(vcs)) if out["obligations"][base_len + i].get("status") == "undecided"
                 and "UNSUPPORTED" not in str(out["obligations"][base_len + i].get("reason"))]
    # a few stragglers are what load produces; many open obligations mean the contract no longer fits the code (or the
    # code changed): retrying them one by one would only burn the time the bounded tier needs
    retry_ok = len(open_ones) <= int(os.environ.get("PYVC_MAX_SERIAL_RETRIES", "3"))
    for i in range(len(vcs)):
        ob = out["obligations"][base_len + i]
        if retry_ok and ob.get("status") == "undecided" and "UNSUPPORTED" not in str(ob.get("reason")) and _SOLVE["retries"]:
            old_t = smt.Z3_TIMEOUT_MS
            smt.Z3_TIMEOUT_MS = old_t * int(spec.get("_retry_factor", 3))
            try:
                ob2 = _solve_vc(i)
            finally:
                smt.Z3_TIMEOUT_MS = old_t
            if ob2.get("status") != "undecided":
                ob2["backend"] = str(ob2.get("backend")) + "(serial retry)"
                out["obligations"][base_len + i] = ob2
    out["time_s"] = time.time() - t0
    return out


_SOLVE = {}


def _uf_apps(t):
    """ids of the applications of uninterpreted functions (arity > 0) inside a term"""
    out, seen, stack = set(), set(), [t]
    while stack:
        x = stack.pop()
        i = x.get_id()
        if i in seen:
            continue
        seen.add(i)
        if z3.is_quantifier(x):
            stack.append(x.body())
            continue
        if z3.is_app(x):
            if x.num_args() > 0 and x.decl().kind() == z3.Z3_OP_UNINTERPRETED:
                out.add(i)
            stack.extend(x.children())
    return out


def _solve_vc(i):
    vc, plevel = _SOLVE["vcs"][i], _SOLVE["plevel"]
    budget, retries = _SOLVE.get("budget_ms"), _SOLVE.get("retries", True)
    if "unsupported" in vc:
        return dict(name=vc["name"], status="undecided", reason="UNSUPPORTED: " + vc["unsupported"],
                    property_level=False, cfg=vc.get("cfg"))
    if "presolved" in vc:
        return dict(name=vc["name"], clause="pure-lemma", property_level=False, cfg=vc.get("cfg"), **vc["presolved"])
    r = None
    ids = vc.get("uf_fact_ids") or set()
    if ids:
        # relevance filter: first try without the (nonlinear) UF axiom instances; fewer assumptions is sound
        core = [a for a in vc["pc"] if a.get_id() not in ids]
        r0 = smt.prove(core, vc["goal"], timeout_ms=6000, second_opinion=False, retries=False)
        if r0["status"] == "discharged":
            r0["backend"] = str(r0.get("backend")) + "(without UF facts)"
            r = r0
        if r is None:
            # stage 1a: only the UF facts that talk about a function application occurring in the goal itself (e.g. the exp
            # axioms for the very exponent of the result); one step of relevance, no closure
            gapps = _uf_apps(vc["goal"])
            direct = [a for a in vc["pc"] if a.get_id() in ids and (_uf_apps(a) & gapps)]
            if direct and len(direct) < len(ids):
                r0a = smt.prove(core + direct, vc["goal"], timeout_ms=8000, second_opinion=False, retries=False)
                if r0a["status"] == "discharged":
                    r0a["backend"] = str(r0a.get("backend")) + "(goal-direct UF facts)"
                    r = r0a
        if r is None:
            # stage 1b: add only the *small* UF facts (bounds, exp/sqrt axiom instances over abstracted terms); the large
            # definitional equalities of abstracted polynomials stay out
            from .values import _term_size

            small = [a for a in vc["pc"] if a.get_id() in ids and _term_size(a, 120) < 120]
            if small and len(small) < len(ids):
                r0b = smt.prove(core + small, vc["goal"], timeout_ms=8000, second_opinion=False, retries=False)
                if r0b["status"] == "discharged":
                    r0b["backend"] = str(r0b.get("backend")) + "(small UF facts only)"
                    r = r0b
        if r is None:
            # second stage: UF facts connected to the goal / path condition through shared symbols (relevance closure);
            # facts about unrelated terms (other harmonics, constant-only terms) only slow the nonlinear solver down
            from .interp import z_free_consts

            seen = set(z_free_consts(vc["goal"]))
            for a in core:
                if not z3.is_quantifier(a):
                    seen |= z_free_consts(a)
            facts = [(a, z_free_consts(a)) for a in vc["pc"] if a.get_id() in ids]
            chosen, changed = [], True
            while changed:
                changed = False
                for item in list(facts):
                    a, names = item
                    if names and names & seen:
                        chosen.append(a)
                        seen |= names
                        facts.remove(item)
                        changed = True
            if len(chosen) < len(ids):
                r1 = smt.prove(core + chosen, vc["goal"], timeout_ms=budget, second_opinion=False, retries=retries)
                if r1["status"] == "discharged":
                    r1["backend"] = str(r1.get("backend")) + "(relevant UF facts)"
                    r = r1
    if r is None:
        r = smt.prove(vc["pc"], vc["goal"], timeout_ms=budget, retries=retries, second_opinion=retries)
    if r["status"] == "undecided" and vc.get("hints"):
        # refutation search under extra ground constraints: any model found is a model of the original VC
        r2 = smt.prove(list(vc["pc"]) + list(vc["hints"]), vc["goal"], timeout_ms=10000, second_opinion=False)
        if r2["status"] == "refuted":
            r2["backend"] = "z3+hints"
            r = r2
    implicit = vc["meta"].get("implicit") or vc["meta"].get("lemma")
    ob = dict(name=vc["name_path"], clause=vc["name"], status=r["status"], backend=r.get("backend"),
              time_s=r.get("time_s", 0.0), cfg=vc["cfg"], reason=r.get("reason"),
              property_level=bool(plevel) and not implicit if not isinstance(plevel, dict)
              else bool(plevel.get(vc["meta"].get("clause"), True)) and not implicit)
    if r["status"] == "refuted":
        ob["model"] = r.get("model_text", "")
        try:
            ob["model_params"] = model_params(r["model"], vc["env"])
        except Exception as e:  # noqa: BLE001
            ob["model_params"] = {"_error": str(e)}
    return ob


class _OldNS:
    def __init__(self, d):
        self.d = d


def _old_attr(I, obj, name):
    return obj.d[name]


def model_value(m, v, depth=0):
    from fractions import Fraction

    if isinstance(v, Sym):
        r = m.eval(v.z, model_completion=True)
        if z3.is_int_value(r):
            return r.as_long()
        if z3.is_rational_value(r):
            return float(Fraction(r.numerator_as_long(), r.denominator_as_long()))
        if z3.is_true(r):
            return True
        if z3.is_false(r):
            return False
        if z3.is_string_value(r):
            return r.as_string()
        if z3.is_algebraic_value(r):
            return float(r.approx(12).as_fraction())
        return str(r)
    if isinstance(v, SymSeq):
        n = model_value(m, v.length) if isinstance(v.length, Sym) else v.length
        if not isinstance(n, int):
            return f"<seq of length {n}>"
        return [model_value(m, v.get(i), depth + 1) for i in range(min(n, 8))] + (["..."] if n > 8 else [])
    if isinstance(v, (tuple, list)):
        return [model_value(m, x, depth + 1) for x in v]
    if type(v).__name__ in ("PRow", "Arr"):
        return [model_value(m, x, depth + 1) for x in (v.values if hasattr(v, "values") else v.items)]  # one row / the array
    if isinstance(v, dict):
        return {str(k): model_value(m, x, depth + 1) for k, x in v.items()}
    if isinstance(v, SymObj):
        return {"__class__": v.cls.name, **{k: model_value(m, x, depth + 1) for k, x in v.fields.items()}}
    if isinstance(v, Opaque):
        return str(m.eval(v.z, model_completion=True))
    from fractions import Fraction as F

    if isinstance(v, F):
        return float(v)
    if v is None or isinstance(v, (bool, int, float, str)):
        return v
    return repr(v)  # stubs, modules, ...: keep the result picklable / JSON-able


def model_params(m, env):
    return {k: model_value(m, v) for k, v in env.items()}


# ------------------------------------------------------------------------------------------
# modular use of a contract at a call site


def apply_contract_at_call(I, fi, spec, args, kwargs, self_obj):
    ctx = I.ctx
    a = fi.node.args
    names = [p.arg for p in a.posonlyargs + a.args]
    env = {}
    pos = list(args)
    if fi.cls is not None and fi.kind in ("method", "property", "setter"):
        env[names[0]] = self_obj
        names = names[1:]
    for n, v in zip(names, pos):
        env[n] = v
    env.update(kwargs)
    mframe = Frame(fi.module)
    dstart = len(names) - len(a.defaults)
    for i, n in enumerate(names):
        if n not in env and i >= dstart:
            env[n] = I.eval(a.defaults[i - dstart], mframe)
    for p, d in zip(a.kwonlyargs, a.kw_defaults):
        if p.arg not in env and d is not None:
            env[p.arg] = I.eval(d, mframe)
    key = (fi.module.relpath, fi.qualname)
    I.used_contracts.add(key)
    mod = fi.module
    ghost = {}
    for gname, gexpr in (spec.get("ghost") or {}).items():
        ghost[gname] = eval_spec(I, gexpr, {**env, **ghost}, mod)
    env_all = {**env, **ghost}
    where = ctx.where[-1]
    for k, r in enumerate(spec.get("requires", [])):
        if isinstance(r, tuple):
            continue  # configuration-specific requires are not checked at call sites (noted as assumption)
        ctx.oblige(f"{where}/call:{fi.qualname}/requires[{k}]", eval_spec(I, r, env_all, mod), {"callsite": True})
    for exc, cond in (spec.get("raises") or {}).items():
        c = eval_spec(I, cond, env_all, mod)
        if ctx.branch(c):
            raise PyRaise(exc, f"by contract of {fi.qualname}")
    for exc in spec.get("may_raise_nondet") or []:
        b = ctx.fresh(f"{fi.name}.raises.{exc}", "bool")
        if ctx.branch(b):
            raise PyRaise(exc, f"may be raised by {fi.qualname} (contract)")
    rs = spec.get("returns")
    if rs is None:
        raise Unsupported(f"contract of {fi.qualname} has no `returns` sort for modular use")
    res = instantiate(ctx, rs, ctx.fresh_name(f"{fi.name}.result"))
    post = dict(env_all)
    post["result"] = res
    for cname, cexpr in spec.get("ensures", []):
        ctx.assume(eval_spec(I, cexpr, post, mod))
    return res
