"""Builtins and *assumed* contracts of external primitives (numpy / itertools / functools / warnings / config).

Everything here is part of the trusted base and is echoed into the evidence (`Interp.ctx.trusted`).
Real numbers are mathematical (A-REAL); np.isclose/allclose are exact equality under that assumption.
"""

from __future__ import annotations

from fractions import Fraction

import z3

from .values import (ExternalFn, ModuleRef, Opaque, PyRaise, Sym, SymC, SymSeq, TypeRef, Unsupported, as_complex,
                     concrete, is_scalar, kind_of, mk, norm_number, seq_of, to_int_z, to_real_z, v_abs, v_add, v_and,
                     v_cmp, v_floordiv, v_ite, v_mul, v_neg, v_not, v_or, v_sub, v_truediv, v_truth, z_of)


class PRow:
    """Pointwise view of an array (..., d): the last axis has the given entries, leading axes are pointwise."""

    def __init__(self, values, lead=1):
        self.values = tuple(values)
        self.lead = lead

    def getitem(self, idx):
        items = idx if isinstance(idx, tuple) else (idx,)
        ints = [i for i in items if isinstance(i, int) and not isinstance(i, bool)]
        if len(items) == 2 and isinstance(items[1], (list, tuple)) and all(isinstance(c, int) and not isinstance(c, bool) for c in items[1]) \
                and not isinstance(items[0], int):
            return PRow([self.values[c] for c in items[1]], self.lead)  # a[:, [c0, c1]] : a selection of columns
        if any(i is None for i in items) and not ints:
            return PRow(self.values, self.lead + sum(1 for i in items if i is None))
        if len(ints) == 1:
            return self.values[ints[0]]
        if not ints:
            return self
        raise Unsupported("row-array index with several integers")


class Arr:
    """Small fixed-length numeric array (np.array of a tuple): element-wise arithmetic with broadcasting of scalars."""

    def __init__(self, items):
        self.items = tuple(items)

    def __repr__(self):
        return f"Arr{self.items}"


def arr_binop(interp, opfn, a, b):
    if isinstance(a, Arr) and isinstance(b, Arr):
        if len(a.items) != len(b.items):
            if len(a.items) == 1:
                return Arr(opfn(a.items[0], y) for y in b.items)
            if len(b.items) == 1:
                return Arr(opfn(x, b.items[0]) for x in a.items)
            raise PyRaise("ValueError", "operands could not be broadcast together")
        return Arr(opfn(x, y) for x, y in zip(a.items, b.items))
    if isinstance(a, Arr):
        if isinstance(b, (tuple, list)):
            return arr_binop(interp, opfn, a, Arr(b))
        return Arr(opfn(x, b) for x in a.items)
    if isinstance(a, (tuple, list)):
        return arr_binop(interp, opfn, Arr(a), b)
    return Arr(opfn(a, y) for y in b.items)


# ------------------------------------------------------------------------------------------


def _ext(name):
    def deco(fn):
        _EXTERNALS[name] = ExternalFn(name, fn)
        return fn

    return deco


def _ext_frame(name):
    def deco(fn):
        fn.wants_frame = True
        _EXTERNALS[name] = ExternalFn(name, fn)
        return fn

    return deco


_EXTERNALS = {}
_BUILTINS = {}


def builtin(name):
    return _BUILTINS.get(name)


_ALIASES = {"cupy": "numpy", "dask.array": "numpy"}


def external(full):
    if full in _EXTERNALS:
        return _EXTERNALS[full]
    head = full.split(".")[0]
    if head in _ALIASES:
        return _EXTERNALS.get(_ALIASES[head] + full[len(head):])
    return None


def _b(name):
    def deco(fn):
        _BUILTINS[name] = ExternalFn(name, fn)
        return fn

    return deco


def _bf(name):
    def deco(fn):
        fn.wants_frame = True
        _BUILTINS[name] = ExternalFn(name, fn)
        return fn

    return deco


# ---- builtins ------------------------------------------------------------------------------


@_b("len")
def b_len(I, args, kw):
    (x,) = args
    if isinstance(x, (tuple, list, dict, str)):
        return len(x)
    if isinstance(x, SymSeq):
        return x.length
    if isinstance(x, Arr):
        return len(x.items)
    if isinstance(x, PRow):
        return Sym(z3.Int("nrows"), "int")  # number of rows of the (N, d) array seen at an arbitrary row
    from .interp import SymObj

    if isinstance(x, SymObj):
        m = x.cls.lookup("methods", "__len__")
        if m is not None:
            return I.call_funcinfo(m, [], {}, self_obj=x)
    if isinstance(x, Opaque):
        return opaque_len(I, x)
    raise PyRaise("TypeError", f"object of type {kind_of(x)} has no len()")


def _forall_seq(I, seq, pred, exists=False):
    """ForAll/Exists over the elements of a SymSeq; pred maps element -> truth value."""
    from .values import PathEnd

    ctx = I.ctx
    i = ctx.push_bound("q")
    rng = z3.And(i.z >= 0, i.z < to_int_z(seq.length))
    ctx.nonneg.add(i.z.get_id())

    def thunk():
        ctx.pc.append(rng)
        return v_truth(pred(seq.get(i)))

    try:
        try:
            body = ctx.merged(thunk)
        except PathEnd:
            body = not exists
    finally:
        facts = ctx.pop_bound()
    zb = z_of(body) if not isinstance(body, bool) else z3.BoolVal(body)
    if exists:
        return mk(z3.Exists([i.z], z3.And(rng, *facts, zb)))
    return mk(z3.ForAll([i.z], z3.Implies(z3.And(rng, *facts), zb)))


@_b("all")
def b_all(I, args, kw):
    (x,) = args
    if isinstance(x, SymSeq) and not isinstance(x.length, int):
        return _forall_seq(I, x, lambda v: v)
    if isinstance(x, Arr):
        x = x.items
    r = True
    for v in I.iter_concrete(x):
        r = v_and(r, v)
    return r


@_b("any")
def b_any(I, args, kw):
    (x,) = args
    if isinstance(x, SymSeq) and not isinstance(x.length, int):
        return _forall_seq(I, x, lambda v: v, exists=True)
    if isinstance(x, Arr):
        x = x.items
    r = False
    for v in I.iter_concrete(x):
        r = v_or(r, v)
    return r


def seq_sum(I, x, frame=None, node=None, start=0):
    if isinstance(x, Arr):
        x = x.items
    if isinstance(x, SymSeq) and not isinstance(x.length, int):
        if x.psum is not None:
            return v_add(start, x.psum(x.length))
        spec = (frame.spec or {}) if frame is not None else {}
        import ast as _ast

        key = _ast.unparse(node.args[0]) if node is not None else None
        lem = (spec.get("sum_lemmas") or {}).get(key)
        if lem is None:
            raise Unsupported(f"sum over a symbolic sequence ({key}) needs a closed-form lemma in the sidecar")
        from .contracts import SPEC_HELPERS
        from .interp import Frame as _Frame

        lf = _Frame(frame.module, frame.func, frame, frame.spec)
        lf.vars.update(SPEC_HELPERS)
        closed = I.eval(_ast.parse(lem, mode="eval").body, lf)
        ctx = I.ctx
        where = ctx.where[-1]
        ctx.oblige(f"{where}/lemma/sum({key})/base", v_cmp("Eq", I.call(closed, [0], {}), 0), {"lemma": True})
        k = ctx.fresh("k", "int")
        hyp = z3.And(k.z >= 0, k.z < to_int_z(x.length))
        saved = len(ctx.pc)
        ctx.pc.append(hyp)
        try:
            step = v_cmp("Eq", v_add(I.call(closed, [k], {}), x.get(k)), I.call(closed, [v_add(k, 1)], {}))
            ctx.oblige(f"{where}/lemma/sum({key})/step", step, {"lemma": True})
        finally:
            del ctx.pc[saved:]
        x.psum = lambda kk: I.call(closed, [kk], {})
        return v_add(start, x.psum(x.length))
    r = start
    for v in I.iter_concrete(x):
        r = v_add(r, v)
    return r


@_bf("sum")
def b_sum(I, args, kw, frame=None, node=None):
    start = args[1] if len(args) > 1 else kw.get("start", 0)
    return seq_sum(I, args[0], frame, node, start)


def _minmax(I, args, kw, is_max):
    if "key" in kw:
        raise Unsupported("min/max with key")
    if len(args) == 1:
        x = args[0]
        if isinstance(x, Arr):
            x = x.items
        if isinstance(x, SymSeq) and not isinstance(x.length, int):
            ctx = I.ctx
            m = ctx.fresh("max" if is_max else "min", "real" if _seq_kind(I, x) == "real" else "int")
            op = "LtE" if is_max else "GtE"
            ctx.oblige_implicit("minmax-of-nonempty", to_int_z(x.length) > 0)
            ctx.assume(_forall_seq(I, x, lambda v: v_cmp(op, v, m)))
            ctx.assume(_forall_seq(I, x, lambda v: v_cmp("Eq", v, m), exists=True))
            return m
        items = I.iter_concrete(x)
        if not items:
            if "default" in kw:
                return kw["default"]
            raise PyRaise("ValueError", "min/max of empty sequence")
    else:
        items = list(args)
    r = items[0]
    for v in items[1:]:
        c = v_cmp("GtE" if is_max else "LtE", r, v)
        r = v_ite(c, r, v)
    return r


def _seq_kind(I, x):
    try:
        i = I.ctx.push_bound("t")
        try:
            v = I.ctx.merged(lambda: x.get(i))
        finally:
            I.ctx.pop_bound()
        return kind_of(v)
    except Exception:  # noqa: BLE001
        return "int"


@_b("max")
def b_max(I, args, kw):
    return _minmax(I, args, kw, True)


@_b("min")
def b_min(I, args, kw):
    return _minmax(I, args, kw, False)


@_b("abs")
def b_abs(I, args, kw):
    return v_abs(args[0], I.ctx)


def to_int(I, x):
    if isinstance(x, bool):
        return int(x)
    if isinstance(x, int):
        return x
    if isinstance(x, Fraction):
        return int(x)  # truncation toward zero
    if isinstance(x, Sym):
        if x.kind == "int":
            return x
        if x.kind == "bool":
            return mk(z3.If(x.z, 1, 0))
        if x.kind == "real":
            return mk(z3.If(x.z >= 0, z3.ToInt(x.z), -z3.ToInt(-x.z)))
    if isinstance(x, str):
        try:
            return int(x)
        except ValueError:
            raise PyRaise("ValueError", "invalid literal for int()")
    raise Unsupported(f"int() of {kind_of(x)}")


def to_float(I, x):
    if isinstance(x, (bool, int)):
        return Fraction(int(x))
    if isinstance(x, Fraction):
        return x
    if isinstance(x, Sym):
        if x.kind == "real":
            return x
        return mk(to_real_z(x))
    raise Unsupported(f"float() of {kind_of(x)}")


@_b("round")
def b_round(I, args, kw):
    x = args[0]
    if len(args) > 1:
        raise Unsupported("round with ndigits")
    if concrete(x):
        return round(norm_number(x))
    z = to_real_z(x)
    f = z3.ToInt(z + z3.RealVal("1/2"))
    tie = z3.And(z3.ToReal(f) == z + z3.RealVal("1/2"), f % 2 != 0)
    return mk(z3.If(tie, f - 1, f))


def py_isinstance(I, v, T):
    if isinstance(T, tuple):
        r = False
        for t in T:
            r = v_or(r, py_isinstance(I, v, t))
        return r
    from . import extract
    from .interp import SymObj

    if isinstance(T, extract.ClassInfo):
        return isinstance(v, SymObj) and v.cls.is_subclass_of(T.name)
    if isinstance(T, ExternalFn) and T.name in ("tuple", "list", "int", "float", "bool", "str", "dict"):
        T = TypeRef(T.name)
    if not isinstance(T, TypeRef):
        raise Unsupported(f"isinstance against {T!r}")
    n = T.name
    k = kind_of(v)
    if n == "int":
        return k in ("int", "bool")
    if n == "bool":
        return k == "bool"
    if n == "float":
        return k == "real"
    if n in ("Number", "Real"):
        return k in ("int", "real", "bool")
    if n == "complex":
        return isinstance(v, SymC)
    if n == "str":
        return k == "str"
    if n == "tuple":
        return isinstance(v, tuple) or (isinstance(v, SymSeq) and getattr(v, "pytype", "tuple") == "tuple")
    if n == "list":
        return isinstance(v, list) or (isinstance(v, SymSeq) and getattr(v, "pytype", "tuple") == "list")
    if n == "dict":
        return isinstance(v, dict)
    if n in ("Iterable", "Sequence", "Sized", "Collection"):
        return isinstance(v, (tuple, list, SymSeq, Arr)) or (n == "Iterable" and isinstance(v, (dict, str)))
    if n == "ndarray":
        return isinstance(v, Arr) or bool(getattr(v, "is_array", False))
    if n in ("NoneType",):
        return v is None
    if n == "object":
        return True
    if n in ("number", "generic", "integer", "floating"):
        return False  # numpy scalar types: inputs are modelled as Python numbers
    if n == "Array":
        return False
    if isinstance(v, SymObj):
        return v.cls.is_subclass_of(n)
    return False


@_b("isinstance")
def b_isinstance(I, args, kw):
    v, T = args
    return py_isinstance(I, v, T)


@_b("zip")
def b_zip(I, args, kw):
    if kw.get("strict"):
        raise Unsupported("zip(strict=True)")
    if not args:
        return []
    if all(not (isinstance(a, SymSeq) and not isinstance(a.length, int)) for a in args):
        lists = [I.iter_concrete(a) for a in args]
        return [tuple(t) for t in zip(*lists)]
    seqs = [seq_of(a) if not isinstance(a, SymSeq) else a for a in args]
    length = seqs[0].length
    if len(seqs) >= 3 and any(not isinstance(s.length, int) for s in seqs):
        # name the minimum of three or more lengths (nested if-then-else terms are duplicated exponentially in index
        # normalisations): n <= every length and n equals one of them
        n = I.ctx.fresh("ziplen", "int")
        lens = [to_int_z(s.length) for s in seqs]
        I.ctx.fact(z3.And(*[n.z <= ln for ln in lens]))
        I.ctx.fact(z3.Or(*[n.z == ln for ln in lens]))
        length = n
    else:
        for s in seqs[1:]:
            length = v_ite(v_cmp("LtE", length, s.length), length, s.length)
    return SymSeq(length, lambda i: tuple(s.get(i) for s in seqs), "zip")


@_b("enumerate")
def b_enumerate(I, args, kw):
    x = args[0]
    start = args[1] if len(args) > 1 else kw.get("start", 0)
    if isinstance(x, SymSeq) and not isinstance(x.length, int):
        return SymSeq(x.length, lambda i: (v_add(i, start), x.get(i)), "enumerate")
    return [(v_add(i, start), v) for i, v in enumerate(I.iter_concrete(x))]


@_b("range")
def b_range(I, args, kw):
    if all(isinstance(a, int) for a in args):
        return list(range(*args))
    if len(args) == 1:
        lo, hi = 0, args[0]
    elif len(args) == 2:
        lo, hi = args
    else:
        lo, hi, step = args
        zs = to_int_z(step)
        I.ctx.oblige_implicit("range-step-positive", zs > 0)  # only positive steps are modelled
        zl, zh = to_int_z(lo), to_int_z(hi)
        # ceil((hi - lo) / step) for step > 0
        length = mk(z3.If(zh > zl, (zh - zl + zs - 1) / zs, 0))
        return SymSeq(length, lambda i: v_add(lo, v_mul(i, step)), "range")
    zl, zh = to_int_z(lo), to_int_z(hi)
    length = mk(z3.If(zh > zl, zh - zl, 0))
    return SymSeq(length, lambda i: v_add(lo, i), "range",
                  psum=None)


@_b("tuple")
def b_tuple(I, args, kw):
    return call_type(I, TypeRef("tuple"), args, kw)


@_b("list")
def b_list(I, args, kw):
    return call_type(I, TypeRef("list"), args, kw)


@_b("int")
def b_int(I, args, kw):
    return to_int(I, args[0]) if args else 0


@_b("float")
def b_float(I, args, kw):
    return to_float(I, args[0]) if args else Fraction(0)


@_b("bool")
def b_bool(I, args, kw):
    return v_truth(args[0]) if args else False


@_b("str")
def b_str(I, args, kw):
    if args and isinstance(args[0], str):
        return args[0]
    return "<str>"


@_b("dict")
def b_dict(I, args, kw):
    d = {}
    if args:
        src = args[0]
        if isinstance(src, dict):
            d.update(src)
        else:
            for k, v in I.iter_concrete(src):
                d[k] = v
    d.update(kw)
    return d


@_b("map")
def b_map(I, args, kw):
    f = args[0]
    if len(args) != 2:
        raise Unsupported("map with several iterables")
    x = args[1]
    if isinstance(x, SymSeq) and not isinstance(x.length, int):
        return SymSeq(x.length, lambda i: I.ctx.merged(lambda: I.call(f, [x.get(i)], {})), "map")
    return [I.call(f, [v], {}) for v in I.iter_concrete(x)]


@_b("reversed")
def b_reversed(I, args, kw):
    x = args[0]
    if isinstance(x, SymSeq) and not isinstance(x.length, int):
        n = x.length
        return SymSeq(n, lambda i: x.get(v_sub(v_sub(n, 1), i)), "reversed")
    return list(reversed(I.iter_concrete(x)))


@_b("sorted")
def b_sorted(I, args, kw):
    items = I.iter_concrete(args[0])
    if all(concrete(v) for v in items) and not kw:
        return sorted(items)
    raise Unsupported("sorted of symbolic values")


@_b("print")
def b_print(I, args, kw):
    return None


@_b("hasattr")
def b_hasattr(I, args, kw):
    obj, name = args
    try:
        I.get_attr(obj, name)
        return True
    except PyRaise:
        return False


@_b("getattr")
def b_getattr(I, args, kw):
    obj, name = args[0], args[1]
    try:
        return I.get_attr(obj, name)
    except PyRaise:
        if len(args) > 2:
            return args[2]
        raise


@_b("callable")
def b_callable(I, args, kw):
    from . import extract
    from .interp import BoundMethod, ClosureFn

    return isinstance(args[0], (ExternalFn, extract.FuncInfo, BoundMethod, ClosureFn))


@_b("type")
def b_type(I, args, kw):
    from .interp import SymObj

    if isinstance(args[0], SymObj):
        return args[0].cls
    raise Unsupported("type() of non-object")


def call_type(I, T, args, kw):
    n = T.name
    if n == "int":
        return to_int(I, args[0]) if args else 0
    if n == "float":
        return to_float(I, args[0]) if args else Fraction(0)
    if n == "bool":
        return v_truth(args[0]) if args else False
    if n == "str":
        return b_str(I, args, kw)
    if n in ("tuple", "list"):
        if not args:
            return () if n == "tuple" else []
        x = args[0]
        if isinstance(x, Arr):
            x = x.items
        if isinstance(x, SymSeq) and not isinstance(x.length, int):
            s = SymSeq(x.length, x.getter, x.name, psum=x.psum)
            s.pytype = n
            return s
        items = I.iter_concrete(x)
        return tuple(items) if n == "tuple" else list(items)
    if n == "dict":
        return b_dict(I, args, kw)
    if n == "slice":
        from .interp import SliceVal

        a = list(args) + [None] * (3 - len(args))
        if len(args) == 1:
            return SliceVal(None, args[0], None)
        return SliceVal(a[0], a[1], a[2])
    if n == "complex":
        return SymC(args[0], args[1] if len(args) > 1 else 0)
    if n in ("float32", "float64"):
        return to_float(I, args[0])
    if n in ("int32", "int64"):
        return to_int(I, args[0])
    raise Unsupported(f"call of type {n}")


def call_builtin_method(I, obj, name, args, kw):
    if isinstance(obj, Opaque):
        obs = getattr(I.ctx, "observations", None)
        if obs is None:
            obs = I.ctx.observations = []
        res = _fresh_opaque(I, obj, name)
        obs.append(dict(op=name, obj=obj, args=args, kwargs=kw, result=res))
        return res
    if isinstance(obj, list):
        if name == "append":
            obj.append(args[0])
            return None
        if name == "extend":
            obj.extend(I.iter_concrete(args[0]))
            return None
        if name == "insert":
            obj.insert(args[0], args[1])
            return None
        if name == "pop":
            return obj.pop(*args)
        if name == "copy":
            return list(obj)
        if name == "index":
            for i, v in enumerate(obj):
                if I.ctx.branch(v_cmp("Eq", v, args[0])):
                    return i
            raise PyRaise("ValueError", "not in list")
    if isinstance(obj, tuple):
        if name == "index":
            for i, v in enumerate(obj):
                if I.ctx.branch(v_cmp("Eq", v, args[0])):
                    return i
            raise PyRaise("ValueError", "not in tuple")
        if name == "count":
            r = 0
            for v in obj:
                r = v_add(r, v_ite(v_cmp("Eq", v, args[0]), 1, 0))
            return r
    if isinstance(obj, dict):
        if name == "get":
            k = args[0]
            d = args[1] if len(args) > 1 else kw.get("default")
            if concrete(k):
                return obj.get(k, d)
            for kk in obj:
                if I.ctx.branch(v_cmp("Eq", k, kk)):
                    return obj[kk]
            return d
        if name == "items":
            return [(k, v) for k, v in obj.items()]
        if name == "keys":
            return list(obj.keys())
        if name == "values":
            return list(obj.values())
        if name == "copy":
            return dict(obj)
        if name == "update":
            if args:
                obj.update(args[0])
            obj.update(kw)
            return None
        if name == "pop":
            if not concrete(args[0]):
                raise Unsupported("dict.pop with symbolic key")
            if args[0] in obj:
                return obj.pop(args[0])
            if len(args) > 1:
                return args[1]
            raise PyRaise("KeyError", repr(args[0]))
        if name == "setdefault":
            return obj.setdefault(args[0], args[1] if len(args) > 1 else None)
    if isinstance(obj, str):
        if all(isinstance(a, str) or isinstance(a, (int, tuple)) for a in args):
            if name in ("startswith", "endswith", "lower", "upper", "strip", "split", "replace", "format", "title",
                        "capitalize", "lstrip", "rstrip", "isdigit"):
                return getattr(obj, name)(*args)
            if name == "join":
                return obj.join(I.iter_concrete(args[0]))
    if isinstance(obj, SymSeq):
        if name == "append":
            old_len, old_get, old_ps, x = obj.length, obj.getter, obj.psum, args[0]

            def getter(i, _l=old_len, _g=old_get, _x=x):
                c = v_cmp("Eq", i, _l)
                if isinstance(c, bool):
                    return _x if c else _g(i)
                return I.ctx.merged(lambda: _x if I.ctx.branch(c) else _g(i))

            obj.length = v_add(old_len, 1)
            obj.getter = getter
            if old_ps is not None and kind_of(x) in ("int", "real"):
                obj.psum = lambda k, _l=old_len, _p=old_ps, _x=x: v_ite(v_cmp("LtE", k, _l), _p(k), v_add(_p(_l), _x))
            else:
                obj.psum = None
            return None
        if name == "copy":
            return obj
    if isinstance(obj, (Sym, SymC, int, Fraction)) and name in ("astype", "copy", "compute", "squeeze", "get"):
        return obj
    if isinstance(obj, SymC) and name in ("conj", "conjugate"):
        return SymC(obj.re, v_neg(obj.im))
    if isinstance(obj, (Sym, int, Fraction)):
        if name == "item":
            return obj
        if name == "is_integer":
            if concrete(obj):
                return Fraction(obj).denominator == 1
            if obj.kind == "int":
                return True
            return mk(z3.IsInt(obj.z))
        if name == "conjugate" or name == "conj":
            return obj
    raise Unsupported(f"method {name} of {type(obj).__name__}")


# ---- opaque objects (tier A) ---------------------------------------------------------------


_OPAQUE_METHODS = {"sum", "mean", "reshape", "astype", "copy", "ravel", "squeeze", "transpose", "compute", "rechunk",
                   "conj", "real", "imag", "map_overlap", "map_blocks"}


class OpaqueFn:
    """An external callable treated as a black box: each call is recorded (name, args, kwargs) and returns a fresh
    opaque value. Used for array kernels (scipy.ndimage.gaussian_filter, ...) whose *arguments* are under contract."""

    def __init__(self, name, tag="ndarray"):
        self.name = name
        self.tag = tag

    def __repr__(self):
        return f"OpaqueFn({self.name})"


def call_opaque_fn(I, f, args, kw):
    from .contracts import opq_sort

    obs = getattr(I.ctx, "observations", None)
    if obs is None:
        obs = I.ctx.observations = []
    res = Opaque(z3.Const(I.ctx.fresh_name(f.name), opq_sort(f.tag)), f.tag)
    obs.append(dict(op=f.name, obj=None, args=list(args), kwargs=dict(kw), result=res))
    I.ctx.trusted.add(f"external kernel {f.name} is a black box: only the arguments passed to it are under contract")
    return res


class NdimageModule:
    pass


def _fresh_opaque(I, like, what):
    from .contracts import opq_sort

    return Opaque(z3.Const(I.ctx.fresh_name(what), opq_sort(like.tag)), like.tag)


def opaque_attr(I, obj, name):
    """Array-like opaque values: methods return fresh opaque values and are recorded as observations."""
    from .interp import BuiltinMethod

    if name in _OPAQUE_METHODS:
        return BuiltinMethod(obj, name)
    raise Unsupported(f"attribute {name} of opaque {obj.tag}")


def opaque_getitem(I, obj, idx):
    obs = getattr(I.ctx, "observations", None)
    if obs is None:
        obs = I.ctx.observations = []
    res = _fresh_opaque(I, obj, "item")
    obs.append(dict(op="getitem", obj=obj, index=idx, result=res))
    return res


def opaque_len(I, obj):
    raise Unsupported("len of opaque")


def pointwise_getitem(I, obj, idx):
    # a[None], a[..., None], a[:, None]: broadcasting helpers are identity on the element
    from .interp import SliceVal

    items = idx if isinstance(idx, tuple) else (idx,)
    for it in items:
        if it is None or it is Ellipsis:
            continue
        if isinstance(it, SliceVal) and it.lo is None and it.hi is None and it.step is None:
            continue
        raise Unsupported("element-selecting subscript in pointwise mode")
    return obj


# ---- numpy / math ----------------------------------------------------------------------------

PI = z3.Real("pi")
PI_FACTS = [PI > z3.RealVal("3.1415926"), PI < z3.RealVal("3.1415927")]


def pi_value(I):
    for f in PI_FACTS:
        I.ctx.fact(f)
    I.ctx.trusted.add("numpy.pi as a real constant with 3.1415926 < pi < 3.1415927")
    return Sym(PI, "real")


def _elementwise(fn):
    def wrapped(I, args, kw):
        x = args[0]
        if isinstance(x, Arr):
            return Arr(fn(I, [v] + list(args[1:]), kw) for v in x.items)
        if isinstance(x, (tuple, list)):
            return Arr(fn(I, [v] + list(args[1:]), kw) for v in x)
        return fn(I, args, kw)

    return wrapped


@_ext("numpy.ceil")
@_elementwise
def np_ceil(I, args, kw):
    x = args[0]
    I.ctx.trusted.add("numpy.ceil/floor = mathematical ceiling/floor (A-REAL)")
    if concrete(x):
        import math

        return Fraction(math.ceil(norm_number(x)))
    if kind_of(x) == "int":
        return mk(z3.ToReal(x.z))
    return mk(z3.ToReal(-z3.ToInt(-x.z)))


@_ext("numpy.floor")
@_elementwise
def np_floor(I, args, kw):
    x = args[0]
    I.ctx.trusted.add("numpy.ceil/floor = mathematical ceiling/floor (A-REAL)")
    if concrete(x):
        import math

        return Fraction(math.floor(norm_number(x)))
    if kind_of(x) == "int":
        return mk(z3.ToReal(x.z))
    return mk(z3.ToReal(z3.ToInt(x.z)))


for _n in ("sqrt", "cos", "sin", "exp", "tan", "log", "arctan", "arccos", "arcsin", "sinh", "cosh", "tanh"):
    def _mk(nm):
        @_elementwise
        def f(I, args, kw):
            x = args[0]
            if isinstance(x, SymC):
                raise Unsupported(f"{nm} of complex")
            return I.ctx.uf_apply(nm, [x])

        return f

    _EXTERNALS[f"numpy.{_n}"] = ExternalFn(f"numpy.{_n}", _mk(_n))
    _EXTERNALS[f"math.{_n}"] = ExternalFn(f"math.{_n}", _mk(_n))


@_ext("numpy.arctan2")
def np_arctan2(I, args, kw):
    return I.ctx.uf_apply("arctan2", [args[0], args[1]])


@_ext("numpy.round")
@_elementwise
def np_round(I, args, kw):
    x = args[0]
    d = args[1] if len(args) > 1 else kw.get("decimals", 0)
    if not isinstance(d, int):
        raise Unsupported("np.round with symbolic decimals")
    I.ctx.trusted.add("numpy.round(x, d) = round-half-even(x * 10^d) / 10^d over the reals (A-REAL)")
    scale = 10 ** d
    r = b_round(I, [v_mul(x, scale)], {})
    return v_truediv(to_float(I, r), scale, None)


_EXTERNALS["numpy.around"] = _EXTERNALS["numpy.round"]


@_ext("numpy.abs")
@_elementwise
def np_abs(I, args, kw):
    return v_abs(args[0], I.ctx)


_EXTERNALS["numpy.absolute"] = _EXTERNALS["numpy.abs"]


@_ext("numpy.array")
def np_array(I, args, kw):
    x = args[0]
    if isinstance(x, (tuple, list)):
        return Arr(x)
    if isinstance(x, Arr):
        return x
    if isinstance(x, SymSeq):
        raise Unsupported("np.array of symbolic-length sequence")
    return x


_EXTERNALS["numpy.asarray"] = _EXTERNALS["numpy.array"]


def _eq_all(I, a, b):
    if isinstance(a, Arr):
        a = a.items
    if isinstance(b, Arr):
        b = b.items
    if (isinstance(a, SymSeq) and not isinstance(a.length, int)) or (isinstance(b, SymSeq) and not isinstance(b.length, int)):
        if is_scalar(a) or is_scalar(b):
            seq, sc = (b, a) if is_scalar(a) else (a, b)
            return _forall_seq(I, seq, lambda v: v_cmp("Eq", v, sc))
        sa, sb = seq_of(a), seq_of(b)
        same_len = v_cmp("Eq", sa.length, sb.length)
        zipped = SymSeq(sa.length, lambda i: (sa.get(i), sb.get(i)), "zip")
        return v_and(same_len, _forall_seq(I, zipped, lambda t: v_cmp("Eq", t[0], t[1])))
    if isinstance(a, (tuple, list)) and isinstance(b, (tuple, list)):
        if len(a) != len(b):
            if len(a) == 1:
                a = a * len(b)
            elif len(b) == 1:
                b = b * len(a)
            else:
                raise PyRaise("ValueError", "shapes differ")
        r = True
        for x, y in zip(a, b):
            r = v_and(r, v_cmp("Eq", x, y))
        return r
    if isinstance(a, (tuple, list)):
        r = True
        for x in a:
            r = v_and(r, v_cmp("Eq", x, b))
        return r
    if isinstance(b, (tuple, list)):
        return _eq_all(I, b, a)
    return v_cmp("Eq", a, b)


@_ext("numpy.allclose")
def np_allclose(I, args, kw):
    I.ctx.trusted.add("numpy.allclose/isclose treated as exact equality (A-REAL)")
    return _eq_all(I, args[0], args[1])


@_ext("numpy.isclose")
def np_isclose(I, args, kw):
    I.ctx.trusted.add("numpy.allclose/isclose treated as exact equality (A-REAL)")
    a, b = args[0], args[1]
    if isinstance(a, (Arr, tuple, list)) or isinstance(b, (Arr, tuple, list)):
        return arr_binop(I, lambda x, y: v_cmp("Eq", x, y), a, b)
    return v_cmp("Eq", a, b)


@_ext("numpy.all")
def np_all(I, args, kw):
    x = args[0]
    if isinstance(x, (bool, Sym)):
        return v_truth(x)
    return b_all(I, [x], {})


@_ext("numpy.any")
def np_any(I, args, kw):
    x = args[0]
    if isinstance(x, (bool, Sym)):
        return v_truth(x)
    return b_any(I, [x], {})


@_ext("numpy.prod")
def np_prod(I, args, kw):
    x = args[0]
    if isinstance(x, Arr):
        x = x.items
    r = 1
    for v in I.iter_concrete(x):
        r = v_mul(r, v)
    return r


@_ext_frame("numpy.sum")
def np_sum(I, args, kw, frame=None, node=None):
    if isinstance(args[0], PRow):
        ax = kw.get("axis", args[1] if len(args) > 1 else None)
        if ax not in (-1, args[0].lead):
            raise Unsupported(f"numpy.sum of a row-array along axis {ax}")
        r = args[0].values[0]
        for v in args[0].values[1:]:
            r = v_add(r, v)
        return r
    return seq_sum(I, args[0], frame, node)


@_ext("numpy.maximum")
def np_maximum(I, args, kw):
    return v_ite(v_cmp("GtE", args[0], args[1]), args[0], args[1])


@_ext("numpy.minimum")
def np_minimum(I, args, kw):
    return v_ite(v_cmp("LtE", args[0], args[1]), args[0], args[1])


@_ext("numpy.clip")
def np_clip(I, args, kw):
    x = args[0]
    lo = args[1] if len(args) > 1 else kw.get("a_min")
    hi = args[2] if len(args) > 2 else kw.get("a_max")
    if lo is not None:
        x = v_ite(v_cmp("Lt", x, lo), lo, x)
    if hi is not None:
        x = v_ite(v_cmp("Gt", x, hi), hi, x)
    return x


@_ext("numpy.where")
def np_where(I, args, kw):
    if len(args) != 3:
        raise Unsupported("np.where with one argument")
    return v_ite(v_truth(args[0]), args[1], args[2])


@_ext("numpy.float32")
def np_float32(I, args, kw):
    I.ctx.trusted.add("numpy float32/float64 casts are identity on reals (A-REAL)")
    return to_float(I, args[0])


_EXTERNALS["numpy.float64"] = _EXTERNALS["numpy.float32"]


@_ext("numpy.isscalar")
def np_isscalar(I, args, kw):
    return is_scalar(args[0])


@_ext("numpy.ndim")
def np_ndim(I, args, kw):
    x = args[0]
    if is_scalar(x):
        return 0
    if isinstance(x, (tuple, list, Arr, SymSeq)):
        return 1
    raise Unsupported("np.ndim")


@_ext("itertools.accumulate")
def it_accumulate(I, args, kw):
    x = args[0]
    if len(args) > 1 or kw:
        raise Unsupported("accumulate with func/initial")
    if isinstance(x, SymSeq) and not isinstance(x.length, int):
        if x.psum is None:
            raise Unsupported("accumulate over symbolic sequence without prefix sums")
        return SymSeq(x.length, lambda i: x.psum(v_add(i, 1)), "accumulate")
    out, r = [], None
    for v in I.iter_concrete(x):
        r = v if r is None else v_add(r, v)
        out.append(r)
    return out


@_ext("itertools.product")
def it_product(I, args, kw):
    import itertools

    if kw:
        raise Unsupported("product(repeat=)")
    lists = [I.iter_concrete(a) for a in args]
    return [tuple(t) for t in itertools.product(*lists)]


@_ext("functools.reduce")
def ft_reduce(I, args, kw):
    f, xs = args[0], I.iter_concrete(args[1])
    if len(args) > 2:
        acc = args[2]
    else:
        if not xs:
            raise PyRaise("TypeError", "reduce of empty sequence")
        acc, xs = xs[0], xs[1:]
    for v in xs:
        acc = I.call(f, [acc, v], {})
    return acc


@_ext("operator.mul")
def op_mul(I, args, kw):
    return v_mul(args[0], args[1])


@_ext("operator.add")
def op_add(I, args, kw):
    return v_add(args[0], args[1])


@_ext("warnings.warn")
def w_warn(I, args, kw):
    I.ctx.trusted.add("warnings.warn modelled as no-op (A-NOEFFECT)")
    return None


@_ext("typing.cast")
def t_cast(I, args, kw):
    return args[1]


@_ext("copy.copy")
def c_copy(I, args, kw):
    return _copy_val(I, args[0], deep=False)


@_ext("copy.deepcopy")
def c_deepcopy(I, args, kw):
    return _copy_val(I, args[0], deep=True)


def _copy_val(I, v, deep):
    from .interp import SymObj

    if isinstance(v, list):
        return [(_copy_val(I, x, deep) if deep else x) for x in v]
    if isinstance(v, dict):
        return {k: (_copy_val(I, x, deep) if deep else x) for k, x in v.items()}
    if isinstance(v, SymObj):
        o = SymObj(v.cls, {k: (_copy_val(I, x, deep) if deep else x) for k, x in v.fields.items()})
        return o
    return v


def _config_get(I, args, kw):
    import importlib

    cfg = importlib.import_module("abtem.core.config")
    key = args[0]
    if not isinstance(key, str):
        raise Unsupported("config.get with non-literal key")
    I.ctx.trusted.add(f"abtem config key {key!r} read from the live default configuration")
    sentinel = object()
    try:
        v = cfg.get(key, *(args[1:2] if len(args) > 1 else ()))
    except KeyError:
        raise PyRaise("KeyError", key)
    return I.from_live(v, f"config[{key}]")


_EXTERNALS["abtem.core.config.get"] = ExternalFn("abtem.core.config.get", _config_get)


class DDict(dict):
    factory = None


@_ext("collections.defaultdict")
def c_defaultdict(I, args, kw):
    d = DDict()
    if len(args) > 1:
        d.update(args[1])
    d.factory = args[0]
    return d


def _identity0(I, args, kw):
    return args[0]


for _n in ("numpy.expand_dims", "numpy.asarray", "numpy.squeeze", "numpy.ascontiguousarray", "numpy.real_if_close"):
    if _n not in _EXTERNALS or _n == "numpy.asarray":
        pass
_EXTERNALS["numpy.expand_dims"] = ExternalFn("numpy.expand_dims", _identity0)


def _np_asarray(I, args, kw):
    x = args[0]
    if isinstance(x, PRow):
        return x
    if isinstance(x, (tuple, list)):
        return Arr(x)
    return x


_EXTERNALS["numpy.asarray"] = ExternalFn("numpy.asarray", _np_asarray)
_EXTERNALS["numpy.array"] = ExternalFn("numpy.array", _np_asarray)


def _filled(I, args, kw, val, what):
    """1-D numpy.zeros / numpy.ones of a (possibly symbolic) length: a sequence whose every element is the constant"""
    shape = args[0] if args else kw.get("shape")
    if isinstance(shape, tuple) and len(shape) == 1:
        shape = shape[0]
    if isinstance(shape, bool) or isinstance(shape, tuple):
        raise Unsupported(what + " with a multi-dimensional shape outside pointwise mode")
    dt = kw.get("dtype")
    if dt is not None and (dt is bool or getattr(dt, "name", None) == "bool"):
        val = bool(val)
    zn = to_int_z(shape)
    I.ctx.oblige_implicit(what + "-length-nonnegative", zn >= 0)
    r = SymSeq(mk(zn) if not isinstance(shape, int) else shape, lambda i: val, what)
    r.fresh_array = True
    return r


@_ext("numpy.zeros")
def np_zeros(I, args, kw):
    if not I.options.get("pointwise"):
        return _filled(I, args, kw, 0, "np.zeros")
    return 0


@_ext("numpy.ones")
def np_ones(I, args, kw):
    if not I.options.get("pointwise"):
        return _filled(I, args, kw, 1, "np.ones")
    return 1


_EXTERNALS["numpy.zeros_like"] = _EXTERNALS["numpy.zeros"]
_EXTERNALS["numpy.ones_like"] = _EXTERNALS["numpy.ones"]


@_ext("abtem.core.backend.get_array_module")
def a_get_array_module(I, args, kw):
    I.ctx.trusted.add("get_array_module(...) is numpy (cpu device)")
    return ModuleRef("numpy")


@_ext("abtem.core.utils.get_dtype")
def a_get_dtype(I, args, kw):
    return TypeRef("dtype")


@_ext("abtem.core.complex.complex_exponential")
def a_complex_exponential(I, args, kw):
    I.ctx.trusted.add("ASSUMED contract: complex_exponential(x) == cos(x) + i sin(x) (Numba kernel, not extracted)")
    from .values import phase

    return phase(args[0])


@_ext("abtem.core.utils.expand_dims_to_broadcast")
def a_expand_dims_to_broadcast(I, args, kw):
    if not I.options.get("pointwise"):
        raise Unsupported("expand_dims_to_broadcast outside pointwise mode")
    I.ctx.trusted.add("A-POINTWISE: broadcasting helpers are identity on one array element")
    return tuple(args) if len(args) > 1 else args[0]


@_ext("abtem.core.complex.abs2")
def a_abs2(I, args, kw):
    x = as_complex(args[0])
    return v_add(v_mul(x.re, x.re), v_mul(x.im, x.im))


@_ext("numpy.sign")
def np_sign(I, args, kw):
    x = args[0]
    return v_ite(v_cmp("Gt", x, 0), 1, v_ite(v_cmp("Lt", x, 0), -1, 0))


@_ext("abtem.distributions._unpack_distributions")
def a_unpack_distributions(I, args, kw):
    """Scalar (non-distribution) parameters only: values returned unchanged, weights 1.0 — exactly what the real
    function computes when no argument is a BaseDistribution (its loop appends each non-distribution arg as is)."""
    for a in args:
        if not (isinstance(a, (Sym, int, Fraction))):
            raise Unsupported("_unpack_distributions with a distribution-valued argument")
    I.ctx.trusted.add("ASSUMED contract: _unpack_distributions(scalars...) == (scalars, 1.0) (distribution-valued parameters are bounded: C03)")
    if len(args) == 0:
        return (), Fraction(1)
    return tuple(args), Fraction(1)


@_ext("abtem.measurements._reduced_scanned_images_or_line_profiles")
def a_reduced_images(I, args, kw):
    I.ctx.trusted.add("ASSUMED contract: _reduced_scanned_images_or_line_profiles wraps the integrated array unchanged")
    return args[0]


@_ext("abtem.core.grid.spatial_frequencies")
def a_spatial_frequencies(I, args, kw):
    """ASSUMED contract (A-POINTWISE): the spatial frequency of the current element along axis i is m_i / (n_i * d_i)
    with m_i the element's integer frequency index (the same symbol in every call of one run)."""
    gpts, sampling = args[0], args[1]
    if kw.get("return_grid") or (len(args) > 2 and args[2]):
        raise Unsupported("spatial_frequencies(return_grid=True)")
    I.ctx.trusted.add("ASSUMED contract: spatial_frequencies(gpts, sampling)[i] == m_i / (gpts[i] * sampling[i]) at the current element (np.fft.fftfreq)")
    g = I.iter_concrete(gpts)
    d = I.iter_concrete(sampling)
    out = []
    for i, (n, dd) in enumerate(zip(g, d)):
        m = Sym(z3.Int(f"freq_index{i}"), "int")
        out.append(v_truediv(m, v_mul(n, dd), None))
    return tuple(out)


@_ext("numpy.tan")
def np_tan(I, args, kw):
    return I.ctx.uf_apply("tan", [args[0]])


@_ext("numpy.linspace")
def np_linspace(I, args, kw):
    """ASSUMED contract of numpy.linspace over the reals: num points start + i*step, step = (stop-start)/(num-1) with the
    end point (num > 1), (stop-start)/num without it; a single point is `start`."""
    a = list(args) + [None] * (3 - len(args))
    start = a[0] if a[0] is not None else kw["start"]
    stop = a[1] if a[1] is not None else kw["stop"]
    num = a[2] if a[2] is not None else kw.get("num", 50)
    endpoint = kw.get("endpoint", True)
    I.ctx.trusted.add("ASSUMED contract: numpy.linspace(a, b, n, endpoint)[i] == a + i*step (A-REAL)")
    I.ctx.oblige_implicit("linspace-num-nonnegative", to_int_z(num) >= 0)
    span = v_sub(stop, start)
    ep = v_truth(endpoint)
    zn = to_int_z(num)
    div_ep = mk(z3.If(zn > 1, z3.ToReal(zn) - 1, z3.RealVal(1)))
    div_no = mk(z3.If(zn > 0, z3.ToReal(zn), z3.RealVal(1)))
    if concrete(num) or (concrete(span) and concrete(endpoint)):
        step = v_ite(ep, v_truediv(span, div_ep, None), v_truediv(span, div_no, None))
    else:
        # the step is named and defined by a product (step * divisor == span, divisor >= 1) rather than by a symbolic
        # division: the same value, far easier on the nonlinear solvers
        div = v_ite(ep, div_ep, div_no)
        step = I.ctx.fresh("linstep", "real")
        I.ctx.fact(z_of(v_cmp("Eq", v_mul(step, div), span)))
    length = mk(z3.If(zn > 0, zn, 0))
    if isinstance(length, int) and length <= 64:
        return Arr([v_add(start, v_mul(i, step)) for i in range(length)]) if False else tuple(v_add(start, v_mul(i, step)) for i in range(length))
    return SymSeq(length, lambda i: v_add(start, v_mul(to_float(I, i), step)), "linspace")


def _roll_model(I, x, shift_of_n, what):
    """ASSUMED contract of numpy.fft.fftshift / ifftshift on a 1-D array of n points: a cyclic roll by n // 2 resp. -(n // 2),
    written without `mod`: result[j] = x[j + s] if j + s < n else x[j + s - n] with s = n - n // 2 resp. n // 2."""
    I.ctx.trusted.add(f"ASSUMED contract: {what} is the cyclic roll of a 1-D array by n // 2 (fftshift) / -(n // 2) (ifftshift)")
    if isinstance(x, (tuple, list)):
        n = len(x)
        s = shift_of_n(n)
        return tuple(x[(j + s) % n] for j in range(n)) if n else tuple()
    if not isinstance(x, SymSeq):
        raise Unsupported(what + " of a non-sequence outside pointwise mode")
    n = x.length
    s = shift_of_n(n)

    def getter(j, _x=x, _n=n, _s=s):
        k = v_add(j, _s)
        return v_ite(v_cmp("Lt", k, _n), _x.get(k), _x.get(v_sub(k, _n)))

    return SymSeq(n, getter, what)


@_ext("numpy.fft.ifftshift")
def np_ifftshift(I, args, kw):
    if I.options.get("pointwise"):
        raise Unsupported("ifftshift in pointwise mode")
    return _roll_model(I, args[0], lambda n: v_floordiv(n, 2), "numpy.fft.ifftshift")


@_ext("numpy.fft.fftshift")
def np_fftshift(I, args, kw):
    if I.options.get("pointwise"):
        raise Unsupported("fftshift in pointwise mode")
    return _roll_model(I, args[0], lambda n: v_sub(n, v_floordiv(n, 2)), "numpy.fft.fftshift")


@_ext("abtem.core.backend.get_ndimage_module")
def a_get_ndimage_module(I, args, kw):
    return ModuleRef("scipy.ndimage")


_EXTERNALS["scipy.ndimage.gaussian_filter"] = OpaqueFn("gaussian_filter")
