"""Loops over symbolic ranges / sequences: inductive invariants from the sidecar (see exec_for_symbolic)."""
from .values import Unsupported


def exec_for_symbolic(I, st, frame, seq, ordinal):
    raise Unsupported("for loop over symbolic sequence (invariant support not loaded)")


def exec_while_symbolic(I, st, frame, ordinal):
    raise Unsupported("while loop with symbolic condition (invariant support not loaded)")
