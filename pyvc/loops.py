"""Loops over sequences / ranges of symbolic length: inductive invariants from the sidecar.

spec["loops"][ordinal] = dict(invariant=[expr, ...])   (ordinal = position of the loop inside the function)
Invariant expressions range over the function's locals plus
    k            number of completed iterations            _iter        the iterated sequence
    _entry_<v>   value of local <v> at loop entry
Each variable assigned in the body is modelled as an uninterpreted function of k. Three kinds of VC are generated:
  .../loop<n>/inv[j]/init      inv(0) in the entry state
  .../loop<n>/inv[j]/preserve  inv(k) and one execution of the real body  =>  inv(k+1)       (arbitrary 0 <= k < n)
and after the loop  forall j in [0, n]: inv(j)  is assumed (justified by induction), state := state(n).
`yield` inside such a loop makes the generator's result a symbolic sequence whose i-th element is the value yielded
by the real body executed in state(i).
"""

from __future__ import annotations

import ast

import z3

from .interp import Frame, _Break, _Continue


class AccList(list):
    """A list local that the loop body only appends to: collects the values appended during one iteration."""

from .values import PathEnd, Sym, SymSeq, Unsupported, kind_of, mk, to_int_z, v_add, v_truth, z_of

_ZS = {"int": z3.IntSort, "real": z3.RealSort, "bool": z3.BoolSort}


def _assigned_names(body):
    names = []
    for st in body:
        for n in ast.walk(st):
            if isinstance(n, ast.Name) and isinstance(n.ctx, ast.Store) and n.id not in names:
                names.append(n.id)
            elif isinstance(n, ast.AugAssign) and isinstance(n.target, ast.Name) and n.target.id not in names:
                names.append(n.target.id)
    return names


def _target_names(t):
    return [n.id for n in ast.walk(t) if isinstance(n, ast.Name)]


def _has_yield(body):
    return any(isinstance(n, (ast.Yield, ast.YieldFrom)) for st in body for n in ast.walk(st))


def _state_fn(ctx, name, sample):
    k = kind_of(sample)
    if isinstance(sample, (tuple, list)):
        fns = [_state_fn(ctx, f"{name}.{i}", x) for i, x in enumerate(sample)]
        typ = type(sample)
        return lambda j: typ(f(j) for f in fns)
    if k not in _ZS:
        raise Unsupported(f"loop-carried variable {name} of kind {k}")
    f = z3.Function(ctx.fresh_name(f"{name}@"), z3.IntSort(), _ZS[k]())
    return lambda j: Sym(f(to_int_z(j)), k)


def _eval_in(I, expr, frame, extra):
    node = ast.parse(expr.strip(), mode="eval").body
    from .contracts import SPEC_HELPERS

    f2 = Frame(frame.module, frame.func, frame, frame.spec)
    f2.vars.update(SPEC_HELPERS)
    f2.vars.update(extra)
    old = I.ctx.implicit_on
    I.ctx.implicit_on = False
    try:
        return I.ctx.merged(lambda: I.eval(node, f2))
    finally:
        I.ctx.implicit_on = old


def exec_for_symbolic(I, st, frame, seq, ordinal):
    spec = ((frame.spec or {}).get("loops") or {}).get(ordinal)
    if spec is None:
        raise Unsupported(f"for loop #{ordinal} over a sequence of symbolic length needs an invariant in the sidecar")
    if st.orelse:
        raise Unsupported("for/else over symbolic sequence")
    ctx = I.ctx
    where = ctx.where[-1]
    n = seq.length
    tnames = _target_names(st.target)
    modified = [v for v in _assigned_names(st.body) if v not in tnames]
    carried = [v for v in modified if frame.lookup(v)[0]]  # defined before the loop -> loop carried
    # list locals that the body appends to (x.append(e)) are accumulators: result = entry + one element per iteration
    accs = []
    for stn in st.body:
        for nd in ast.walk(stn):
            if (isinstance(nd, ast.Call) and isinstance(nd.func, ast.Attribute) and nd.func.attr == "append"
                    and isinstance(nd.func.value, ast.Name)):
                nm = nd.func.value.id
                found, val = frame.lookup(nm)
                if found and isinstance(val, (list, SymSeq)) and nm not in accs:
                    accs.append(nm)
    if any(a in carried for a in accs):
        raise Unsupported("accumulator list is also re-assigned in the loop body")
    acc_entry = {a: frame.lookup(a)[1] for a in accs}
    entry = {f"_entry_{v}": frame.lookup(v)[1] for v in carried}
    invs = list(spec.get("invariant", []))
    base_extra = dict(entry)
    base_extra["_iter"] = seq
    # ---- init
    for j, inv in enumerate(invs):
        g = _eval_in(I, inv, frame, {**base_extra, "k": 0})
        ctx.oblige(f"{where}/loop{ordinal}/inv[{j}]/init", g, {"loop": True})
    fns = {v: _state_fn(ctx, v, frame.lookup(v)[1]) for v in carried}
    alt = ctx.nondet(2, f"loop{ordinal}")
    if alt == 0:
        # ---- preservation at an arbitrary iteration
        k = ctx.fresh("k", "int")
        ctx.assume(mk(z3.And(k.z >= 0, k.z < to_int_z(n))))
        for v in carried:
            frame.vars[v] = fns[v](k)
        for inv in invs:
            ctx.assume(_eval_in(I, inv, frame, {**base_extra, "k": k}))
        I.assign(st.target, seq.get(k), frame)
        for a in accs:
            frame.vars[a] = AccList()
        saved_y = frame.yields
        if saved_y is not None:
            frame.yields = []
        try:
            try:
                I.exec_block(st.body, frame)
            except _Continue:
                pass
            except _Break:
                raise Unsupported("break inside a loop over a symbolic sequence")
        finally:
            if saved_y is not None:
                frame.yields = saved_y
        for j, inv in enumerate(invs):
            g = _eval_in(I, inv, frame, {**base_extra, "k": v_add(k, 1)})
            ctx.oblige(f"{where}/loop{ordinal}/inv[{j}]/preserve", g, {"loop": True})
        raise PathEnd()
    # ---- exit: assume the invariant at every iteration count (induction), continue in state(n)
    entry_vars = dict(frame.vars)
    jb = ctx.push_bound("j")
    try:
        zs = []
        for inv in invs:
            f2 = Frame(frame.module, frame.func, frame, frame.spec)
            for v in carried:
                f2.vars[v] = fns[v](jb)
            zs.append(z_of(v_truth(_eval_in(I, inv, f2, {**base_extra, "k": jb}))))
    finally:
        facts = ctx.pop_bound()
    if zs:
        ctx.assume(mk(z3.ForAll([jb.z], z3.Implies(z3.And(jb.z >= 0, jb.z <= to_int_z(n), *facts), z3.And(*zs)))))
    body, target = st.body, st.target
    for a in accs:
        def agetter(i, _a=a):
            def thunk():
                f2 = Frame(frame.module, frame.func, None, frame.spec)
                f2.vars.update(entry_vars)
                for v in carried:
                    f2.vars[v] = fns[v](i)
                for b in accs:
                    f2.vars[b] = AccList()
                f2.yields = [] if frame.yields is not None else None
                I.assign(target, seq.get(i), f2)
                try:
                    I.exec_block(body, f2)
                except _Continue:
                    pass
                except _Break:
                    raise Unsupported("break inside a loop over a symbolic sequence")
                if len(f2.vars[_a]) != 1:
                    raise Unsupported("loop body must append exactly once per iteration to an accumulator list")
                return f2.vars[_a][0]

            return ctx.merged(thunk)

        from .values import seq_of as _seq_of

        ent = acc_entry[a]
        tail = SymSeq(n, agetter, f"acc:{a}")
        res = tail if (isinstance(ent, list) and not ent) else I.seq_concat(_seq_of(ent), tail)
        res.pytype = "list"
        frame.vars[a] = res
    if frame.yields is not None and _has_yield(st.body):

        def getter(i):
            def thunk():
                f2 = Frame(frame.module, frame.func, None, frame.spec)
                f2.vars.update(entry_vars)
                for v in carried:
                    f2.vars[v] = fns[v](i)
                f2.yields = []
                I.assign(target, seq.get(i), f2)
                try:
                    I.exec_block(body, f2)
                except _Continue:
                    pass
                except _Break:
                    raise Unsupported("break inside a loop over a symbolic sequence")
                if len(f2.yields) != 1:
                    raise Unsupported("loop body must yield exactly once per iteration")
                return f2.yields[0]

            return ctx.merged(thunk)

        frame.yields.append(SymSeq(n, getter, "yields"))
    for v in carried:
        frame.vars[v] = fns[v](n)
    for v in modified:
        if v not in carried:
            frame.vars.pop(v, None)


def exec_while_symbolic(I, st, frame, ordinal):
    raise Unsupported("while loop with a symbolic condition (no invariant support)")
