"""Mechanical extraction of functions / classes from the real sources under /repo (re-read on every run).

Nothing here copies abTEM logic: a ModuleInfo is an index over the parsed AST of the file as it is on disk now.
What extraction drops is listed in DESIGN.md §2.1 (docstrings, annotations, typing.cast, decorators @property/
@staticmethod/@classmethod/@abstractmethod/@overload; @jit functions are refused).
"""

from __future__ import annotations

import ast
import hashlib
import os

REPO = os.environ.get("VERIF_REPO", "/repo")


class ExtractError(Exception):
    pass


class FuncInfo:
    def __init__(self, module, node, cls=None, kind="function"):
        self.module = module
        self.node = node
        self.cls = cls
        self.kind = kind  # function | method | property | setter | staticmethod | classmethod
        self.name = node.name
        self.qualname = f"{cls.name}.{node.name}" if cls else node.name

    @property
    def source(self):
        return ast.get_source_segment(self.module.text, self.node) or ""

    def describe(self):
        return dict(
            file=self.module.relpath,
            qualname=self.qualname + (".setter" if self.kind == "setter" else ""),
            lines=[self.node.lineno, self.node.end_lineno],
            sha256=hashlib.sha256(self.source.encode()).hexdigest(),
        )

    def is_generator(self):
        for n in ast.walk(self.node):
            if isinstance(n, (ast.Yield, ast.YieldFrom)):
                # exclude nested defs
                return True
        return False


class ClassInfo:
    def __init__(self, module, node):
        self.module = module
        self.node = node
        self.name = node.name
        self.methods = {}
        self.properties = {}
        self.setters = {}
        self.class_attrs = {}
        self.bases = []
        for b in node.bases:
            if isinstance(b, ast.Name):
                self.bases.append(b.id)
            elif isinstance(b, ast.Attribute):
                self.bases.append(b.attr)
        for st in node.body:
            if isinstance(st, ast.FunctionDef):
                decos = [_deco_name(d) for d in st.decorator_list]
                if "overload" in decos:
                    continue
                if any(d in ("jit", "njit", "numba.jit") or d.startswith("jit") for d in decos):
                    continue
                if "property" in decos or "cached_property" in decos:
                    self.properties[st.name] = FuncInfo(module, st, self, "property")
                elif any(d.endswith(".setter") for d in decos):
                    self.setters[st.name] = FuncInfo(module, st, self, "setter")
                elif "staticmethod" in decos:
                    self.methods[st.name] = FuncInfo(module, st, self, "staticmethod")
                elif "classmethod" in decos:
                    self.methods[st.name] = FuncInfo(module, st, self, "classmethod")
                else:
                    self.methods[st.name] = FuncInfo(module, st, self, "method")
            elif isinstance(st, ast.Assign) and len(st.targets) == 1 and isinstance(st.targets[0], ast.Name):
                self.class_attrs[st.targets[0].id] = st.value
            elif isinstance(st, ast.AnnAssign) and isinstance(st.target, ast.Name) and st.value is not None:
                self.class_attrs[st.target.id] = st.value

    def mro(self):
        """Linearised lookup through bases that can be resolved to abTEM classes (others are skipped)."""
        out, seen = [], set()

        def rec(c):
            if c is None or id(c) in seen:
                return
            seen.add(id(c))
            out.append(c)
            for b in c.bases:
                rec(c.module.resolve_class(b))

        rec(self)
        return out

    def lookup(self, table, name):
        for c in self.mro():
            t = getattr(c, table)
            if name in t:
                return t[name]
        return None

    def is_subclass_of(self, name):
        return any(c.name == name for c in self.mro())


def _deco_name(d):
    if isinstance(d, ast.Call):
        d = d.func
    if isinstance(d, ast.Name):
        return d.id
    if isinstance(d, ast.Attribute):
        base = _deco_name(d.value)
        return f"{base}.{d.attr}"
    return "?"


_CACHE = {}


class ModuleInfo:
    def __init__(self, relpath):
        self.relpath = relpath
        self.path = os.path.join(REPO, relpath)
        if not os.path.exists(self.path):
            raise ExtractError(f"source file not found: {self.path}")
        with open(self.path, encoding="utf-8") as f:
            self.text = f.read()
        self.tree = ast.parse(self.text)
        self.functions = {}
        self.classes = {}
        self.imports = {}  # local name -> ("module", dotted) | ("from", dotted_module, name)
        self.globals_ast = {}
        self.dotted = relpath[:-3].replace("/", ".")
        if self.dotted.endswith(".__init__"):
            self.dotted = self.dotted[: -len(".__init__")]
        for st in self.tree.body:
            self._index(st)

    def _index(self, st):
        if isinstance(st, ast.FunctionDef):
            decos = [_deco_name(d) for d in st.decorator_list]
            if "overload" in decos:
                return
            fi = FuncInfo(self, st)
            fi.jitted = any("jit" in d for d in decos)
            self.functions[st.name] = fi
        elif isinstance(st, ast.ClassDef):
            self.classes[st.name] = ClassInfo(self, st)
        elif isinstance(st, ast.Import):
            for a in st.names:
                self.imports[a.asname or a.name.split(".")[0]] = ("module", a.name if a.asname else a.name.split(".")[0])
        elif isinstance(st, ast.ImportFrom):
            mod = st.module or ""
            if st.level:
                base = self.dotted.split(".")
                base = base[: len(base) - st.level] if not self.relpath.endswith("__init__.py") else base[: len(base) - st.level + 1]
                mod = ".".join(base + ([mod] if mod else []))
            for a in st.names:
                self.imports[a.asname or a.name] = ("from", mod, a.name)
        elif isinstance(st, ast.Assign) and len(st.targets) == 1 and isinstance(st.targets[0], ast.Name):
            self.globals_ast[st.targets[0].id] = st.value
        elif isinstance(st, ast.AnnAssign) and isinstance(st.target, ast.Name) and st.value is not None:
            self.globals_ast[st.target.id] = st.value
        elif isinstance(st, ast.If):
            # e.g. `if TYPE_CHECKING:` / try-import blocks: index both branches conservatively
            for s in st.body + st.orelse:
                self._index(s)
        elif isinstance(st, ast.Try):
            for s in st.body:
                self._index(s)

    # -- resolution ----------------------------------------------------------------------
    def function(self, qualname) -> FuncInfo:
        setter = False
        if qualname.endswith(".setter"):
            qualname, setter = qualname[: -len(".setter")], True
        if "." in qualname:
            cname, mname = qualname.split(".", 1)
            cls = self.classes.get(cname)
            if cls is None:
                raise ExtractError(f"class {cname} not found in {self.relpath}")
            if setter:
                f = cls.lookup("setters", mname)
            else:
                f = cls.lookup("methods", mname) or cls.lookup("properties", mname)
            if f is None:
                raise ExtractError(f"{qualname} not found in {self.relpath}")
            return f
        f = self.functions.get(qualname)
        if f is None:
            raise ExtractError(f"function {qualname} not found in {self.relpath}")
        return f

    def resolve_class(self, name):
        if name in self.classes:
            return self.classes[name]
        imp = self.imports.get(name)
        if imp and imp[0] == "from" and imp[1].startswith("abtem"):
            m = module_for_dotted(imp[1])
            if m is not None:
                return m.resolve_class(imp[2])
        return None

    def resolve_function(self, name):
        if name in self.functions:
            return self.functions[name]
        imp = self.imports.get(name)
        if imp and imp[0] == "from" and imp[1].startswith("abtem"):
            m = module_for_dotted(imp[1])
            if m is not None:
                return m.resolve_function(imp[2])
        return None


def module_for_dotted(dotted):
    rel = dotted.replace(".", "/")
    for cand in (rel + ".py", rel + "/__init__.py"):
        if os.path.exists(os.path.join(REPO, cand)):
            return load_module(cand)
    return None


def load_module(relpath) -> ModuleInfo:
    key = (REPO, relpath)
    st = os.stat(os.path.join(REPO, relpath)) if os.path.exists(os.path.join(REPO, relpath)) else None
    stamp = (st.st_mtime_ns, st.st_size) if st else None
    if key not in _CACHE or _CACHE[key][0] != stamp:
        _CACHE[key] = (stamp, ModuleInfo(relpath))
    return _CACHE[key][1]
