"""Back ends: z3 (python API) first, cvc5 (CLI on the SMT-LIB export) as second opinion for `unknown`."""

from __future__ import annotations

import os
import subprocess
import tempfile
import time

import z3

Z3_TIMEOUT_MS = int(os.environ.get("PYVC_Z3_TIMEOUT_MS", "20000"))
CVC5_TIMEOUT_S = int(os.environ.get("PYVC_CVC5_TIMEOUT_S", "20"))


def _has_strings(fs):
    txt = " ".join(str(f.sort()) for f in fs)
    return "String" in txt


def _decl_names(t, acc, seen):
    stack = [t]
    while stack:
        x = stack.pop()
        i = x.get_id()
        if i in seen:
            continue
        seen.add(i)
        if z3.is_quantifier(x):
            stack.append(x.body())
        elif z3.is_app(x):
            if x.decl().kind() == z3.Z3_OP_UNINTERPRETED and x.num_args() > 0:
                acc.add(x.decl().name())
            stack.extend(x.children())


def _psum_definition_of(a):
    """name f of the prefix-sum function if `a` is one of the two defining axioms of f (f(..,0) == 0 and
    k >= 1 -> f(..,k) == f(..,k-1) + el(..,k-1), possibly under a quantifier), else None"""
    names = set()
    _decl_names(a, names, set())
    ps = [n for n in names if n.endswith(".psum")]
    if len(ps) != 1 or not names <= {ps[0], ps[0][:-5] + ".el"}:
        return None
    body = a.body() if z3.is_quantifier(a) else a
    if z3.is_implies(body):
        body = body.arg(1)
    if not z3.is_eq(body):
        return None
    return ps[0]


def drop_unused_definitions(assumptions, goal):
    """The prefix-sum functions are defined by recursion over the element function (a conservative extension): when a
    prefix-sum function occurs nowhere but in its own two defining axioms, these can be dropped without changing
    satisfiability — any model of the rest extends to one of the definition. Quantified definitions that nothing uses are
    what makes z3 answer `unknown (incomplete quantifiers)` on otherwise ground, satisfiable VCs."""
    defs, used = {}, set()
    for k, a in enumerate(assumptions):
        f = _psum_definition_of(a)
        if f is not None:
            defs.setdefault(f, []).append(k)
        else:
            _decl_names(a, used, set())
    _decl_names(goal, used, set())
    drop = {k for f, ks in defs.items() if f not in used for k in ks}
    return [a for k, a in enumerate(assumptions) if k not in drop] if drop else assumptions


def prove(assumptions, goal, timeout_ms=None, want_model=True, second_opinion=True, retries=True):
    """Return dict(status=discharged|refuted|undecided, backend, time_s, model, reason)."""
    t0 = time.time()
    dl = os.environ.get("PYVC_DEADLINE")
    if dl:
        left = float(dl) - t0
        if left <= 1.0:
            return dict(status="undecided", backend="none", time_s=0.0, reason="wall-clock budget of the deductive tier exhausted")
        timeout_ms = int(min(timeout_ms or Z3_TIMEOUT_MS, max(1000.0, left * 1000)))
        if left < 30:
            retries = second_opinion = False
    assumptions = drop_unused_definitions(list(assumptions), goal)
    timeout_ms = timeout_ms or Z3_TIMEOUT_MS
    # fast path: value propagation + equation solving + polynomial normal form often closes (in)equational VCs
    try:
        g = z3.Goal()
        for a in assumptions:
            g.add(a)
        g.add(z3.Not(goal))
        tac = z3.TryFor(z3.Then(z3.Tactic("simplify"), z3.Tactic("propagate-values"), z3.Tactic("solve-eqs"),
                                z3.With(z3.Tactic("simplify"), som=True)), 5000)
        res = tac(g)
        if len(res) == 1 and len(res[0]) == 1 and z3.is_false(res[0][0]):
            return dict(status="discharged", backend="z3-tactics(simplify,propagate-values,solve-eqs,som)", time_s=time.time() - t0)
    except z3.Z3Exception:
        pass
    s = z3.Solver()
    for a in assumptions:
        s.add(a)
    s.add(z3.Not(goal))
    smt2 = None
    # z3 briefly, then a short cvc5 attempt, then z3 with the full budget: VCs mixing integer division, to_int and
    # products of reals that z3 leaves open for its whole budget are often closed by cvc5 in milliseconds, and nearly
    # everything else z3 decides well within the first slice (only `unsat` is taken from cvc5: its `sat` has no model
    # we could replay)
    first = min(timeout_ms, 2500)
    for budget in ([first, timeout_ms] if timeout_ms > first else [first]):
        s.set("timeout", budget)
        r = s.check()
        dt = time.time() - t0
        if r == z3.unsat:
            return dict(status="discharged", backend="z3", time_s=dt)
        if r == z3.sat:
            m = s.model()
            return dict(status="refuted", backend="z3", time_s=dt, model=m, model_text=_model_text(m))
        if smt2 is None:
            smt2 = s.to_smt2()
            if _cvc5(smt2, tlimit_s=4) == "unsat":
                return dict(status="discharged", backend="cvc5", time_s=time.time() - t0)
    reason = s.reason_unknown()
    # retry with other seeds / the nlsat tactic: unknown answers of z3 on small nonlinear VCs are often unstable
    for attempt, (tac, seed) in enumerate([(None, 7), ("qfnra-nlsat", 0), (None, 42)] if retries else []):
        try:
            if tac is None:
                s2 = z3.Solver()
                s2.set("random_seed", seed)
            else:
                s2 = z3.Tactic(tac).solver()
            s2.set("timeout", max(2000, timeout_ms // 2))
            for a in assumptions:
                s2.add(a)
            s2.add(z3.Not(goal))
            r = s2.check()
        except z3.Z3Exception:
            continue
        if r == z3.unsat:
            return dict(status="discharged", backend=f"z3({tac or 'seed'+str(seed)})", time_s=time.time() - t0)
        if r == z3.sat:
            m = s2.model()
            return dict(status="refuted", backend="z3", time_s=time.time() - t0, model=m, model_text=_model_text(m))
    dt = time.time() - t0
    if not second_opinion:
        return dict(status="undecided", backend="z3", time_s=dt, reason=f"z3: {reason}")
    # second opinion
    r2 = _cvc5(smt2)
    dt = time.time() - t0
    if r2 == "unsat":
        return dict(status="discharged", backend="cvc5", time_s=dt)
    return dict(status="undecided", backend="z3+cvc5", time_s=dt, reason=f"z3: {reason}; cvc5: {r2}")


def prove_pure_real(formula, timeout_ms=8000):
    """Validity of `formula` as a statement of real arithmetic alone: every maximal subterm that is not built from
    + - * / comparison and boolean connectives over Real constants / numerals (to_real of an integer term, an
    uninterpreted application, an if-then-else ...) is replaced by a fresh real variable — a generalisation, so validity
    of the abstraction implies validity of the instance — and the negation is given to nlsat. Never returns `refuted`."""
    t0 = time.time()
    cache, fresh = {}, [0]
    arith = {z3.Z3_OP_ADD, z3.Z3_OP_SUB, z3.Z3_OP_MUL, z3.Z3_OP_DIV, z3.Z3_OP_UMINUS, z3.Z3_OP_LE, z3.Z3_OP_LT, z3.Z3_OP_GE,
             z3.Z3_OP_GT, z3.Z3_OP_EQ, z3.Z3_OP_DISTINCT, z3.Z3_OP_AND, z3.Z3_OP_OR, z3.Z3_OP_NOT, z3.Z3_OP_IMPLIES, z3.Z3_OP_ITE,
             z3.Z3_OP_POWER}

    import functools
    import operator

    num = (z3.RealSort(), z3.IntSort())

    def build(kind, ch):
        if kind == z3.Z3_OP_ADD:
            return functools.reduce(operator.add, ch)
        if kind == z3.Z3_OP_MUL:
            return functools.reduce(operator.mul, ch)
        if kind == z3.Z3_OP_SUB:
            return functools.reduce(operator.sub, ch)
        if kind == z3.Z3_OP_UMINUS:
            return -ch[0]
        if kind == z3.Z3_OP_DIV:
            return ch[0] / ch[1]
        if kind == z3.Z3_OP_LE:
            return ch[0] <= ch[1]
        if kind == z3.Z3_OP_LT:
            return ch[0] < ch[1]
        if kind == z3.Z3_OP_GE:
            return ch[0] >= ch[1]
        if kind == z3.Z3_OP_GT:
            return ch[0] > ch[1]
        if kind == z3.Z3_OP_EQ:
            return ch[0] == ch[1]
        if kind == z3.Z3_OP_DISTINCT:
            return z3.Distinct(*ch)
        if kind == z3.Z3_OP_AND:
            return z3.And(*ch)
        if kind == z3.Z3_OP_OR:
            return z3.Or(*ch)
        if kind == z3.Z3_OP_NOT:
            return z3.Not(ch[0])
        if kind == z3.Z3_OP_IMPLIES:
            return z3.Implies(ch[0], ch[1])
        if kind == z3.Z3_OP_ITE:
            return z3.If(ch[0], ch[1], ch[2])
        raise ValueError("operator")

    def gen(t):
        fresh[0] += 1
        return z3.Bool(f"genb!{fresh[0]}") if z3.is_bool(t) else z3.Real(f"gen!{fresh[0]}")

    def ab(t):
        """integers are generalised to reals as well (valid over the reals implies valid over the integers for
        + - * and comparisons); integer division, mod, to_int, function applications become fresh variables"""
        i = t.get_id()
        if i in cache:
            return cache[i]
        if z3.is_quantifier(t):
            raise ValueError("quantifier in a pure lemma")
        if not (z3.is_bool(t) or t.sort() in num):
            raise ValueError(f"subterm of sort {t.sort()}")
        k = t.decl().kind() if z3.is_app(t) else None
        if z3.is_rational_value(t) or z3.is_int_value(t):
            r = z3.RealVal(str(t))
        elif z3.is_true(t) or z3.is_false(t):
            r = t
        elif k == z3.Z3_OP_TO_REAL:
            r = ab(t.arg(0))
        elif z3.is_const(t) and k == z3.Z3_OP_UNINTERPRETED:
            r = t if (z3.is_bool(t) or t.sort() == z3.RealSort()) else z3.Real("int2real!" + t.decl().name())
        elif k in arith and k != z3.Z3_OP_DIV and all(z3.is_bool(c) or c.sort() in num for c in t.children()) \
                and not (k in (z3.Z3_OP_EQ, z3.Z3_OP_DISTINCT) and not all(z3.is_bool(c) == z3.is_bool(t.arg(0)) for c in t.children())):
            r = build(k, [ab(c) for c in t.children()])
        elif k == z3.Z3_OP_DIV and t.sort() == z3.RealSort():
            r = build(k, [ab(c) for c in t.children()])
        else:
            r = gen(t)  # integer division / mod / to_int / function application / power ...
        cache[i] = r
        return r

    try:
        g = ab(formula)
    except (ValueError, z3.Z3Exception) as e:
        return dict(status="undecided", backend="pure-real", time_s=time.time() - t0, reason=f"not a pure real lemma: {e}")
    for mk_solver, nm in ((lambda: z3.Tactic("qfnra-nlsat").solver(), "z3(nlsat, pure real generalisation)"),
                          (lambda: z3.Solver(), "z3(pure real generalisation)")):
        try:
            sv = mk_solver()
            sv.set("timeout", timeout_ms)
            sv.add(z3.Not(g))
            r = sv.check()
        except z3.Z3Exception:
            continue
        if r == z3.unsat:
            return dict(status="discharged", backend=nm, time_s=time.time() - t0)
        if r == z3.sat:
            return dict(status="undecided", backend=nm, time_s=time.time() - t0,
                        reason="the real generalisation of the lemma is not valid (the lemma is not assumed)")
    return dict(status="undecided", backend="pure-real", time_s=time.time() - t0, reason="solver gave no answer")


def _model_text(m):
    try:
        items = []
        for d in m.decls():
            items.append(f"{d.name()} = {m[d]}")
        return "; ".join(sorted(items))[:3000]
    except Exception as e:  # noqa: BLE001
        return f"<model unavailable: {e}>"


def _cvc5(smt2_text, tlimit_s=None):
    exe = "/usr/bin/cvc5"
    if not os.path.exists(exe):
        return "unavailable"
    with tempfile.NamedTemporaryFile("w", suffix=".smt2", delete=False, dir=os.environ.get("TMPDIR", "/tmp")) as f:
        f.write("(set-logic ALL)\n" + smt2_text)
        path = f.name
    try:
        tl = tlimit_s or CVC5_TIMEOUT_S
        p = subprocess.run([exe, "--strings-exp", f"--tlimit={tl * 1000}", path],
                           capture_output=True, text=True, timeout=tl + 5)
        out = (p.stdout or "").strip().splitlines()
        return out[0] if out else f"no output ({p.stderr.strip()[:100]})"
    except subprocess.TimeoutExpired:
        return "timeout"
    except Exception as e:  # noqa: BLE001
        return f"error {e}"
    finally:
        try:
            os.remove(path)
        except OSError:
            pass


def satisfiable(assumptions, timeout_ms=3000):
    s = z3.Solver()
    s.set("timeout", timeout_ms)
    for a in assumptions:
        s.add(a)
    r = s.check()
    return "sat" if r == z3.sat else ("unsat" if r == z3.unsat else "unknown")
