"""Back ends: z3 (python API) first, cvc5 (CLI on the SMT-LIB export) as second opinion for `unknown`."""

from __future__ import annotations

import os
import subprocess
import tempfile
import time

import z3

Z3_TIMEOUT_MS = int(os.environ.get("PYVC_Z3_TIMEOUT_MS", "20000"))
CVC5_TIMEOUT_S = int(os.environ.get("PYVC_CVC5_TIMEOUT_S", "20"))


def _has_strings(fs):
    txt = " ".join(str(f.sort()) for f in fs)
    return "String" in txt


def _decl_names(t, acc, seen):
    stack = [t]
    while stack:
        x = stack.pop()
        i = x.get_id()
        if i in seen:
            continue
        seen.add(i)
        if z3.is_quantifier(x):
            stack.append(x.body())
        elif z3.is_app(x):
            if x.decl().kind() == z3.Z3_OP_UNINTERPRETED and x.num_args() > 0:
                acc.add(x.decl().name())
            stack.extend(x.children())


def _psum_definition_of(a):
    """name f of the prefix-sum function if `a` is one of the two defining axioms of f (f(..,0) == 0 and
    k >= 1 -> f(..,k) == f(..,k-1) + el(..,k-1), possibly under a quantifier), else None"""
    names = set()
    _decl_names(a, names, set())
    ps = [n for n in names if n.endswith(".psum")]
    if len(ps) != 1 or not names <= {ps[0], ps[0][:-5] + ".el"}:
        return None
    body = a.body() if z3.is_quantifier(a) else a
    if z3.is_implies(body):
        body = body.arg(1)
    if not z3.is_eq(body):
        return None
    return ps[0]


def drop_unused_definitions(assumptions, goal):
    """The prefix-sum functions are defined by recursion over the element function (a conservative extension): when a
    prefix-sum function occurs nowhere but in its own two defining axioms, these can be dropped without changing
    satisfiability — any model of the rest extends to one of the definition. Quantified definitions that nothing uses are
    what makes z3 answer `unknown (incomplete quantifiers)` on otherwise ground, satisfiable VCs."""
    defs, used = {}, set()
    for k, a in enumerate(assumptions):
        f = _psum_definition_of(a)
        if f is not None:
            defs.setdefault(f, []).append(k)
        else:
            _decl_names(a, used, set())
    _decl_names(goal, used, set())
    drop = {k for f, ks in defs.items() if f not in used for k in ks}
    return [a for k, a in enumerate(assumptions) if k not in drop] if drop else assumptions


def prove(assumptions, goal, timeout_ms=None, want_model=True, second_opinion=True, retries=True):
    """Return dict(status=discharged|refuted|undecided, backend, time_s, model, reason)."""
    t0 = time.time()
    assumptions = drop_unused_definitions(list(assumptions), goal)
    timeout_ms = timeout_ms or Z3_TIMEOUT_MS
    # fast path: value propagation + equation solving + polynomial normal form often closes (in)equational VCs
    try:
        g = z3.Goal()
        for a in assumptions:
            g.add(a)
        g.add(z3.Not(goal))
        tac = z3.TryFor(z3.Then(z3.Tactic("simplify"), z3.Tactic("propagate-values"), z3.Tactic("solve-eqs"),
                                z3.With(z3.Tactic("simplify"), som=True)), 5000)
        res = tac(g)
        if len(res) == 1 and len(res[0]) == 1 and z3.is_false(res[0][0]):
            return dict(status="discharged", backend="z3-tactics(simplify,propagate-values,solve-eqs,som)", time_s=time.time() - t0)
    except z3.Z3Exception:
        pass
    s = z3.Solver()
    s.set("timeout", timeout_ms)
    for a in assumptions:
        s.add(a)
    s.add(z3.Not(goal))
    r = s.check()
    dt = time.time() - t0
    if r == z3.unsat:
        return dict(status="discharged", backend="z3", time_s=dt)
    if r == z3.sat:
        m = s.model()
        return dict(status="refuted", backend="z3", time_s=dt, model=m, model_text=_model_text(m))
    reason = s.reason_unknown()
    # a short cvc5 attempt first: quantified VCs with division / to_int that z3 leaves open for minutes are often closed by
    # cvc5 in milliseconds (only `unsat` is used; a cvc5 `sat` has no model we could replay)
    smt2 = s.to_smt2()
    if _cvc5(smt2, tlimit_s=4) == "unsat":
        return dict(status="discharged", backend="cvc5", time_s=time.time() - t0)
    # retry with other seeds / the nlsat tactic: unknown answers of z3 on small nonlinear VCs are often unstable
    for attempt, (tac, seed) in enumerate([(None, 7), ("qfnra-nlsat", 0), (None, 42)] if retries else []):
        try:
            if tac is None:
                s2 = z3.Solver()
                s2.set("random_seed", seed)
            else:
                s2 = z3.Tactic(tac).solver()
            s2.set("timeout", max(2000, timeout_ms // 2))
            for a in assumptions:
                s2.add(a)
            s2.add(z3.Not(goal))
            r = s2.check()
        except z3.Z3Exception:
            continue
        if r == z3.unsat:
            return dict(status="discharged", backend=f"z3({tac or 'seed'+str(seed)})", time_s=time.time() - t0)
        if r == z3.sat:
            m = s2.model()
            return dict(status="refuted", backend="z3", time_s=time.time() - t0, model=m, model_text=_model_text(m))
    dt = time.time() - t0
    if not second_opinion:
        return dict(status="undecided", backend="z3", time_s=dt, reason=f"z3: {reason}")
    # second opinion
    r2 = _cvc5(smt2)
    dt = time.time() - t0
    if r2 == "unsat":
        return dict(status="discharged", backend="cvc5", time_s=dt)
    return dict(status="undecided", backend="z3+cvc5", time_s=dt, reason=f"z3: {reason}; cvc5: {r2}")


def _model_text(m):
    try:
        items = []
        for d in m.decls():
            items.append(f"{d.name()} = {m[d]}")
        return "; ".join(sorted(items))[:3000]
    except Exception as e:  # noqa: BLE001
        return f"<model unavailable: {e}>"


def _cvc5(smt2_text, tlimit_s=None):
    exe = "/usr/bin/cvc5"
    if not os.path.exists(exe):
        return "unavailable"
    with tempfile.NamedTemporaryFile("w", suffix=".smt2", delete=False, dir=os.environ.get("TMPDIR", "/tmp")) as f:
        f.write("(set-logic ALL)\n" + smt2_text)
        path = f.name
    try:
        tl = tlimit_s or CVC5_TIMEOUT_S
        p = subprocess.run([exe, "--strings-exp", f"--tlimit={tl * 1000}", path],
                           capture_output=True, text=True, timeout=tl + 5)
        out = (p.stdout or "").strip().splitlines()
        return out[0] if out else f"no output ({p.stderr.strip()[:100]})"
    except subprocess.TimeoutExpired:
        return "timeout"
    except Exception as e:  # noqa: BLE001
        return f"error {e}"
    finally:
        try:
            os.remove(path)
        except OSError:
            pass


def satisfiable(assumptions, timeout_ms=3000):
    s = z3.Solver()
    s.set("timeout", timeout_ms)
    for a in assumptions:
        s.add(a)
    r = s.check()
    return "sat" if r == z3.sat else ("unsat" if r == z3.unsat else "unknown")
