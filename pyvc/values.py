"""Symbolic value domain of the pyvc executor.

Concrete Python values stay concrete (int, bool, str, None, Fraction for every non-integer number, tuple, list, dict).
Symbolic scalars are `Sym` (z3 Int / Real / Bool / String). Sequences of symbolic length are `SymSeq` (length term +
lazy element getter). Floats are mathematical reals (assumption A-REAL): float literals become exact Fractions.
"""

from __future__ import annotations

from fractions import Fraction

import z3


class Unsupported(Exception):
    """Construct outside the verified subset: the obligation becomes UNDECIDED, never a violation."""


class PyRaise(Exception):
    """A Python-level `raise` in the interpreted code."""

    def __init__(self, exc_type, msg=""):
        super().__init__(f"{exc_type}: {msg}")
        self.exc_type = exc_type
        self.msg = msg


class PathEnd(Exception):
    """The current path is infeasible or deliberately cut."""


class Sym:
    __slots__ = ("z", "kind")

    def __init__(self, z, kind=None):
        self.z = z
        if kind is None:
            s = z.sort()
            if s == z3.IntSort():
                kind = "int"
            elif s == z3.RealSort():
                kind = "real"
            elif s == z3.BoolSort():
                kind = "bool"
            elif s == z3.StringSort():
                kind = "str"
            else:
                kind = str(s)
        self.kind = kind

    def __repr__(self):
        return f"Sym<{self.kind}:{self.z}>"

    def __bool__(self):
        raise Unsupported("implicit bool() of a symbolic value inside the engine")


class SymC:
    """Complex number as a pair of real-valued values."""

    __slots__ = ("re", "im", "arg")

    def __init__(self, re, im, arg=None):
        self.re = re
        self.im = im
        self.arg = arg  # phase argument if this value is exp(i*arg) (unit modulus), else None

    def __repr__(self):
        return f"SymC({self.re}, {self.im})"


CURRENT_CTX = [None]  # set by the interpreter: needed to create cos/sin terms of phase factors


def phase(arg):
    """exp(i*arg) as a complex value that remembers its argument (products of phases add their arguments exactly)."""
    ctx = CURRENT_CTX[0]
    if ctx is None:
        raise Unsupported("phase factor without an active context")
    return SymC(ctx.uf_apply("cos", [arg]), ctx.uf_apply("sin", [arg]), arg=arg)


class Opaque:
    """Value of an uninterpreted sort (tier A): arrays, waves, potentials, detectors..."""

    __slots__ = ("z", "tag")

    def __init__(self, z, tag=""):
        self.z = z
        self.tag = tag

    def __repr__(self):
        return f"Opaque<{self.tag}:{self.z}>"


class SymSeq:
    """Immutable sequence with symbolic length; `getter(i)` returns element i (i: int or Sym int)."""

    def __init__(self, length, getter, name="seq", psum=None, mono=None):
        self.length = length
        self.getter = getter
        self.name = name
        self.psum = psum  # optional callable k -> value: sum of the first k elements

    def get(self, i):
        return self.getter(i)

    def __repr__(self):
        return f"SymSeq<{self.name}, len={self.length}>"


class ModuleRef:
    def __init__(self, dotted):
        self.dotted = dotted

    def __repr__(self):
        return f"ModuleRef({self.dotted})"


class ExternalFn:
    def __init__(self, name, fn):
        self.name = name
        self.fn = fn

    def __repr__(self):
        return f"ExternalFn({self.name})"


class TypeRef:
    """A type used in isinstance / constructor position."""

    def __init__(self, name, pytypes=()):
        self.name = name
        self.pytypes = pytypes

    def __repr__(self):
        return f"TypeRef({self.name})"


# ------------------------------------------------------------------------------------------
# lifting


def is_concrete_number(v):
    return isinstance(v, (int, Fraction)) and not isinstance(v, bool) or isinstance(v, bool)


def norm_number(v):
    """float -> exact Fraction of its shortest repr (A-REAL); numpy scalars -> python."""
    if isinstance(v, bool) or isinstance(v, int) or isinstance(v, Fraction):
        return v
    if isinstance(v, float):
        if v != v or v in (float("inf"), float("-inf")):
            raise Unsupported("non-finite float")
        if v == int(v) and abs(v) < 2**53:
            return Fraction(int(v))
        return Fraction(repr(v))
    try:
        import numpy as np

        if isinstance(v, np.bool_):
            return bool(v)
        if isinstance(v, np.integer):
            return int(v)
        if isinstance(v, np.floating):
            return norm_number(float(v))
    except ImportError:
        pass
    return v


def z_of(v):
    """z3 term of a scalar value."""
    if isinstance(v, Sym):
        return v.z
    if isinstance(v, bool):
        return z3.BoolVal(v)
    if isinstance(v, int):
        return z3.IntVal(v)
    if isinstance(v, Fraction):
        return z3.RealVal(str(v)) if v.denominator != 1 else z3.RealVal(v.numerator)
    if isinstance(v, float):
        return z_of(norm_number(v))
    if isinstance(v, str):
        return z3.StringVal(v)
    raise Unsupported(f"cannot lift {type(v).__name__} to a solver term")


def kind_of(v):
    if isinstance(v, Sym):
        return v.kind
    if isinstance(v, bool):
        return "bool"
    if isinstance(v, int):
        return "int"
    if isinstance(v, (Fraction, float)):
        return "real"
    if isinstance(v, str):
        return "str"
    if v is None:
        return "none"
    return type(v).__name__


def is_scalar(v):
    return isinstance(v, (Sym, bool, int, Fraction, float, str))


def is_numeric(v):
    return kind_of(v) in ("int", "real", "bool")


def to_real_z(v):
    z = z_of(v)
    if z.sort() == z3.IntSort():
        return z3.ToReal(z)
    if z.sort() == z3.BoolSort():
        return z3.If(z, z3.RealVal(1), z3.RealVal(0))
    return z


def to_int_z(v):
    z = z_of(v)
    if z.sort() == z3.BoolSort():
        return z3.If(z, z3.IntVal(1), z3.IntVal(0))
    if z.sort() == z3.RealSort():
        raise Unsupported("real used where int expected")
    return z


def _num_pair(a, b):
    ka, kb = kind_of(a), kind_of(b)
    if ka not in ("int", "real", "bool") or kb not in ("int", "real", "bool"):
        raise Unsupported(f"arithmetic on {ka} and {kb}")
    if ka == "real" or kb == "real":
        return to_real_z(a), to_real_z(b), "real"
    return to_int_z(a), to_int_z(b), "int"


def simp(z):
    return z3.simplify(z)


def mk(z):
    z = z3.simplify(z)
    if z3.is_int_value(z):
        return z.as_long()
    if z3.is_rational_value(z):
        return Fraction(z.numerator_as_long(), z.denominator_as_long())
    if z3.is_true(z):
        return True
    if z3.is_false(z):
        return False
    if z3.is_string_value(z):
        return z.as_string()
    return Sym(z)


def concrete(v):
    return not isinstance(v, (Sym, SymSeq, SymC, Opaque))


# ------------------------------------------------------------------------------------------
# arithmetic (Python semantics, A-REAL for floats)


def v_add(a, b):
    if isinstance(a, SymC) or isinstance(b, SymC):
        a, b = as_complex(a), as_complex(b)
        return SymC(v_add(a.re, b.re), v_add(a.im, b.im))
    if concrete(a) and concrete(b):
        return norm_number(a) + norm_number(b)
    za, zb, _ = _num_pair(a, b)
    return mk(za + zb)


def v_sub(a, b):
    if isinstance(a, SymC) or isinstance(b, SymC):
        a, b = as_complex(a), as_complex(b)
        return SymC(v_sub(a.re, b.re), v_sub(a.im, b.im))
    if concrete(a) and concrete(b):
        return norm_number(a) - norm_number(b)
    za, zb, _ = _num_pair(a, b)
    return mk(za - zb)


def v_mul(a, b):
    if isinstance(a, SymC) and concrete(b) and not isinstance(b, (tuple, list)) and norm_number(b) == 1:
        return a
    if isinstance(b, SymC) and concrete(a) and not isinstance(a, (tuple, list)) and norm_number(a) == 1:
        return b
    if isinstance(a, SymC) and isinstance(b, SymC) and a.arg is not None and b.arg is not None:
        return phase(v_add(a.arg, b.arg))  # exp(ia) exp(ib) == exp(i(a+b))
    if isinstance(a, SymC) or isinstance(b, SymC):
        a, b = as_complex(a), as_complex(b)
        return SymC(v_sub(v_mul(a.re, b.re), v_mul(a.im, b.im)), v_add(v_mul(a.re, b.im), v_mul(a.im, b.re)))
    if concrete(a) and concrete(b):
        return norm_number(a) * norm_number(b)
    za, zb, _ = _num_pair(a, b)
    return mk(za * zb)


def v_neg(a):
    if isinstance(a, SymSeq):
        # unary minus has no list/tuple meaning: the operand is a 1-D ndarray, negated element by element
        ps = (lambda k, _p=a.psum: v_neg(_p(k))) if a.psum is not None else None
        return SymSeq(a.length, lambda i, _g=a.getter: v_neg(_g(i)), "neg", psum=ps)
    if isinstance(a, SymC):
        return SymC(v_neg(a.re), v_neg(a.im))
    if concrete(a):
        return -norm_number(a)
    if a.kind == "bool":
        return mk(-to_int_z(a))
    return mk(-a.z)


def v_truediv(a, b, ctx=None):
    if isinstance(a, SymC) or isinstance(b, SymC):
        a, b = as_complex(a), as_complex(b)
        den = v_add(v_mul(b.re, b.re), v_mul(b.im, b.im))
        re = v_truediv(v_add(v_mul(a.re, b.re), v_mul(a.im, b.im)), den, ctx)
        im = v_truediv(v_sub(v_mul(a.im, b.re), v_mul(a.re, b.im)), den, ctx)
        return SymC(re, im)
    if concrete(a) and concrete(b):
        b2 = norm_number(b)
        if b2 == 0:
            raise PyRaise("ZeroDivisionError", "division by zero")
        return Fraction(norm_number(a)) / Fraction(b2)
    za, zb = to_real_z(a), to_real_z(b)
    if ctx is not None:
        ctx.oblige_implicit("division-by-nonzero", zb != 0)
    return mk(za / zb)


def z_floordiv(za, zb):
    """Python floor division on z3 Ints."""
    return z3.If(zb > 0, za / zb, (-za) / (-zb))


def v_floordiv(a, b, ctx=None):
    if concrete(a) and concrete(b):
        b2 = norm_number(b)
        if b2 == 0:
            raise PyRaise("ZeroDivisionError", "integer division by zero")
        r = norm_number(a) // b2
        return int(r) if isinstance(r, Fraction) and r.denominator == 1 and not isinstance(a, Fraction) and not isinstance(b, Fraction) else r
    za, zb, k = _num_pair(a, b)
    if ctx is not None:
        ctx.oblige_implicit("division-by-nonzero", zb != 0)
    if k == "int":
        return mk(z_floordiv(za, zb))
    return mk(z3.ToReal(z3.ToInt(za / zb)))


def v_mod(a, b, ctx=None):
    if concrete(a) and concrete(b):
        b2 = norm_number(b)
        if b2 == 0:
            raise PyRaise("ZeroDivisionError", "modulo by zero")
        return norm_number(a) % b2
    za, zb, k = _num_pair(a, b)
    if ctx is not None:
        ctx.oblige_implicit("division-by-nonzero", zb != 0)
    if k == "int":
        return mk(za - zb * z_floordiv(za, zb))
    return mk(za - zb * z3.ToReal(z3.ToInt(za / zb)))


def v_pow(a, b, ctx=None):
    if concrete(a) and concrete(b):
        a2, b2 = norm_number(a), norm_number(b)
        if isinstance(b2, Fraction) and b2.denominator != 1:
            if b2 == Fraction(1, 2) and ctx is not None:
                return ctx.uf_sqrt(a2)
            raise Unsupported("fractional power of concrete number")
        b2 = int(b2)
        if b2 < 0:
            return Fraction(1) / (Fraction(a2) ** (-b2))
        return a2**b2
    if concrete(b):
        b2 = norm_number(b)
        if isinstance(b2, Fraction) and b2.denominator == 1:
            b2 = int(b2)
        if isinstance(b2, int) and not isinstance(b2, bool):
            if b2 == 0:
                return 1
            if 0 < b2 <= 12:
                r = a
                for _ in range(b2 - 1):
                    r = v_mul(r, a)
                if b2 % 2 == 0 and ctx is not None and isinstance(r, Sym) and not isinstance(a, SymC):
                    if _term_size(r.z, 60) >= 60:
                        # a large polynomial: name it. The bound is always available, the definition only in the later
                        # solver stages (proving with the abstraction alone is sound: fewer hypotheses)
                        v = ctx.fresh("sq", "real")
                        ctx.global_axiom(v.z >= 0)
                        ctx.fact(v.z == r.z)
                        return v
                    ctx.fact(r.z >= 0)  # an even power of a real is non-negative (valid; spares the solver the nonlinear step)
                return r
            if -12 <= b2 < 0:
                return v_truediv(1, v_pow(a, -b2, ctx), ctx)
        if b2 == Fraction(1, 2) and ctx is not None:
            return ctx.uf_sqrt(a)
    if ctx is not None:
        return ctx.uf_apply("pow", [a, b])
    raise Unsupported("symbolic power")


def _term_size(z, limit):
    n, stack, seen = 0, [z], set()
    while stack and n < limit:
        t = stack.pop()
        if t.get_id() in seen:
            continue
        seen.add(t.get_id())
        n += 1
        stack.extend(t.children())
    return n


def v_abs(a, ctx=None):
    if isinstance(a, SymC) and a.arg is not None:
        return 1  # |exp(i x)| == 1
    if isinstance(a, SymC):
        if ctx is None:
            raise Unsupported("abs of complex without context")
        return ctx.uf_sqrt(v_add(v_mul(a.re, a.re), v_mul(a.im, a.im)))
    if concrete(a):
        return abs(norm_number(a))
    return mk(z3.If(a.z >= 0, a.z, -a.z))


def as_complex(v):
    if isinstance(v, SymC):
        return v
    if isinstance(v, complex):
        return SymC(norm_number(v.real), norm_number(v.imag))
    return SymC(v, 0)


_CMP = {
    "Eq": lambda x, y: x == y,
    "NotEq": lambda x, y: x != y,
    "Lt": lambda x, y: x < y,
    "LtE": lambda x, y: x <= y,
    "Gt": lambda x, y: x > y,
    "GtE": lambda x, y: x >= y,
}


def v_cmp(op, a, b):
    """Comparison with Python semantics on the supported sorts; returns bool or Sym bool."""
    if op in ("Is", "IsNot"):
        if a is None or b is None:
            r = (a is None) and (b is None)
            if (a is None) != (b is None) and (isinstance(a, OptSym) or isinstance(b, OptSym)):
                raise Unsupported("OptSym identity")
            return r if op == "Is" else not r
        if isinstance(a, bool) and isinstance(b, bool):
            return (a is b) if op == "Is" else (a is not b)
        if isinstance(a, Sym) and a.kind == "bool" or isinstance(b, Sym) and b.kind == "bool":
            return v_cmp("Eq" if op == "Is" else "NotEq", a, b)
        r = a is b
        return r if op == "Is" else not r
    if isinstance(a, SymC) or isinstance(b, SymC):
        if op not in ("Eq", "NotEq"):
            raise Unsupported("ordering on complex")
        a, b = as_complex(a), as_complex(b)
        r = v_and(v_cmp("Eq", a.re, b.re), v_cmp("Eq", a.im, b.im))
        return r if op == "Eq" else v_not(r)
    if isinstance(a, Opaque) or isinstance(b, Opaque):
        if op not in ("Eq", "NotEq") or not (isinstance(a, Opaque) and isinstance(b, Opaque)):
            if op in ("Eq", "NotEq"):
                return op == "NotEq"
            raise Unsupported("ordering on opaque")
        r = mk(a.z == b.z)
        return r if op == "Eq" else v_not(r)
    if a is None or b is None:
        if op == "Eq":
            return a is None and b is None
        if op == "NotEq":
            return not (a is None and b is None)
        raise PyRaise("TypeError", "ordering with None")
    if isinstance(a, (tuple, list)) and isinstance(b, (tuple, list)):
        if op in ("Eq", "NotEq"):
            if len(a) != len(b) or (isinstance(a, tuple) != isinstance(b, tuple)):
                r = False
            else:
                r = True
                for x, y in zip(a, b):
                    r = v_and(r, v_cmp("Eq", x, y))
            return r if op == "Eq" else v_not(r)
        raise Unsupported("ordering on sequences")
    if isinstance(a, (tuple, list, dict)) or isinstance(b, (tuple, list, dict)):
        if op in ("Eq", "NotEq") and concrete(a) and concrete(b):
            return (a == b) if op == "Eq" else (a != b)
        if op in ("Eq", "NotEq") and (is_scalar(a) or is_scalar(b)):
            return op == "NotEq"  # scalar vs container: never equal
        raise Unsupported(f"comparison {op} on containers with symbolic content")
    if isinstance(a, SymSeq) or isinstance(b, SymSeq):
        if op in ("Eq", "NotEq") and (is_scalar(a) or is_scalar(b)):
            return op == "NotEq"
        raise Unsupported("comparison of symbolic sequences")
    ka, kb = kind_of(a), kind_of(b)
    if concrete(a) and concrete(b):
        if ka == "str" or kb == "str":
            if ka != kb:
                if op == "Eq":
                    return False
                if op == "NotEq":
                    return True
                raise PyRaise("TypeError", "ordering str/number")
            return _CMP[op](a, b)
        if ka in ("int", "real", "bool") and kb in ("int", "real", "bool"):
            return _CMP[op](norm_number(a), norm_number(b))
        if op == "Eq":
            return a == b
        if op == "NotEq":
            return a != b
        raise Unsupported(f"comparison of {ka} and {kb}")
    if ka == "str" or kb == "str":
        if ka != kb:
            if op == "Eq":
                return False
            if op == "NotEq":
                return True
            raise PyRaise("TypeError", "ordering str/number")
        if op not in ("Eq", "NotEq"):
            raise Unsupported("string ordering")
        return mk(_CMP[op](z_of(a), z_of(b)))
    if ka == "bool" and kb == "bool":
        if op in ("Eq", "NotEq"):
            return mk(_CMP[op](z_of(a), z_of(b)))
    if ka not in ("int", "real", "bool") or kb not in ("int", "real", "bool"):
        if op == "Eq":
            return False
        if op == "NotEq":
            return True
        raise Unsupported(f"comparison of {ka} and {kb}")
    za, zb, _ = _num_pair(a, b)
    return mk(_CMP[op](za, zb))


class OptSym:  # placeholder (optional values are enumerated as configurations instead)
    pass


def to_bool_z(v):
    if isinstance(v, Sym):
        if v.kind == "bool":
            return v.z
        if v.kind in ("int", "real"):
            return v.z != 0
        if v.kind == "str":
            return z3.Length(v.z) > 0
    if isinstance(v, bool):
        return z3.BoolVal(v)
    raise Unsupported(f"truth value of {v!r}")


def v_truth(v):
    """Python truthiness -> bool or Sym bool."""
    if isinstance(v, Sym):
        return mk(to_bool_z(v))
    if isinstance(v, SymSeq):
        ln = v.length
        return v_cmp("Gt", ln, 0)
    if isinstance(v, SymC):
        return v_or(v_truth(v.re), v_truth(v.im))
    if isinstance(v, Opaque):
        raise Unsupported("truth value of opaque object")
    return bool(v)


def v_not(a):
    a = v_truth(a)
    if isinstance(a, bool):
        return not a
    return mk(z3.Not(a.z))


def v_and(a, b):
    a, b = v_truth(a), v_truth(b)
    if isinstance(a, bool):
        return b if a else False
    if isinstance(b, bool):
        return a if b else False
    return mk(z3.And(a.z, b.z))


def v_or(a, b):
    a, b = v_truth(a), v_truth(b)
    if isinstance(a, bool):
        return True if a else b
    if isinstance(b, bool):
        return True if b else a
    return mk(z3.Or(a.z, b.z))


def v_implies(a, b):
    return v_or(v_not(a), b)


def seq_of(v):
    """View a concrete tuple/list as SymSeq."""
    if isinstance(v, SymSeq):
        return v
    items = list(v)

    def getter(i):
        if isinstance(i, int):
            return items[i]
        if not items:
            raise Unsupported("index into empty sequence")
        r = items[-1]
        for k in range(len(items) - 2, -1, -1):
            r = v_ite(mk(i.z == k), items[k], r)
        return r

    ps = None
    if all(is_scalar(x) and kind_of(x) in ("int", "real", "bool") for x in items):
        prefix = [0]
        for x in items:
            prefix.append(v_add(prefix[-1], x))

        def ps(k):
            if isinstance(k, int):
                return prefix[max(0, min(k, len(items)))]
            r = prefix[-1]
            for j in range(len(items) - 1, -1, -1):
                r = v_ite(mk(k.z <= j), prefix[j], r)
            return r

    s = SymSeq(len(items), getter, "tuple", psum=ps)
    s.pytype = "list" if isinstance(v, list) else "tuple"
    return s


def v_ite(c, a, b):
    """Merge two values under condition c (bool or Sym bool)."""
    if isinstance(c, bool):
        return a if c else b
    if a is b:
        return a
    if a is None and b is None:
        return None
    if isinstance(a, SymC) or isinstance(b, SymC):
        a, b = as_complex(a), as_complex(b)
        return SymC(v_ite(c, a.re, b.re), v_ite(c, a.im, b.im))
    if is_scalar(a) and is_scalar(b):
        if concrete(a) and concrete(b) and kind_of(a) == kind_of(b) and a == b:
            return a
        ka, kb = kind_of(a), kind_of(b)
        if ka == "str" and kb == "str":
            return mk(z3.If(c.z, z_of(a), z_of(b)))
        if ka == "bool" and kb == "bool":
            return mk(z3.If(c.z, z_of(a), z_of(b)))
        if ka in ("int", "real", "bool") and kb in ("int", "real", "bool"):
            za, zb, _ = _num_pair(a, b)
            return mk(z3.If(c.z, za, zb))
        raise Unsupported(f"merge of {ka} and {kb}")
    if isinstance(a, Opaque) and isinstance(b, Opaque):
        return Opaque(z3.If(c.z, a.z, b.z), a.tag)
    if isinstance(a, (tuple, list)) and isinstance(b, (tuple, list)) and len(a) == len(b):
        r = [v_ite(c, x, y) for x, y in zip(a, b)]
        return tuple(r) if isinstance(a, tuple) else r
    if isinstance(a, (tuple, list, SymSeq)) and isinstance(b, (tuple, list, SymSeq)):
        sa, sb = seq_of(a), seq_of(b)
        ps = None
        if sa.psum is not None and sb.psum is not None:
            def ps(k):
                return v_ite(c, sa.psum(k), sb.psum(k))
        r = SymSeq(v_ite(c, sa.length, sb.length), lambda i: v_ite(c, sa.get(i), sb.get(i)), "ite", psum=ps)
        r.pytype = getattr(sa, "pytype", "tuple")
        return r
    if isinstance(a, dict) and isinstance(b, dict) and set(a) == set(b):
        return {k: v_ite(c, a[k], b[k]) for k in a}
    raise Unsupported(f"merge of {type(a).__name__} and {type(b).__name__}")
