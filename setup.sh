#!/bin/bash
# Builds the overlay interpreter /verif/.ovenv offline (idempotent).
# /venv (the repository's own venv) is never modified: a .pth file adds its site-packages.
set -e
cd "$(dirname "$0")"
OV=.ovenv
if [ -x "$OV/bin/python" ] && "$OV/bin/python" -c "import z3, jsonschema, sympy, mpmath, abtem" >/dev/null 2>&1; then
    exit 0
fi
rm -rf "$OV"
/venv/bin/python -m venv "$OV"
PIP_NO_INDEX=1 "$OV/bin/pip" install -q --no-index --find-links /opt/veriftools/wheels \
    z3-solver cvc5 crosshair-tool deal icontract sympy mpmath jsonschema >/dev/null
echo "import site; site.addsitedir('/venv/lib/python3.12/site-packages')" \
    > "$OV/lib/python3.12/site-packages/_repo_deps.pth"
"$OV/bin/python" -c "import z3, jsonschema, sympy, mpmath, abtem; print('overlay ok', z3.get_version_string(), abtem.__file__)"
